"""Determinism + Noise self-tests.

  python -m simlib.selftest --short     (part of MANIFEST.setup_cmd)
  python -m simlib.selftest --long      (hundreds of seeds per world)

For every available check module a set of seeds is run (a) in this process,
(b) again in this process after the heap was perturbed, (c) in a fresh
interpreter, (d) in a forked 4-worker pool; the blake2 digests of the complete
event logs must agree.  Any mismatch is a harness error.
"""
import importlib
import json
import os
import subprocess
import sys

from simlib import boot  # noqa: F401
from simlib import runner

MODULES = ["c%02d" % i for i in range(1, 21)]
HERE = os.path.dirname(os.path.dirname(os.path.abspath(__file__)))


def available():
    out = []
    for m in MODULES:
        if os.path.exists(os.path.join(HERE, "checks", m + ".py")):
            out.append(m)
    return out


def digests(modname, seeds):
    mod = importlib.import_module("checks." + modname)
    cfgs = mod.configs("quick") if hasattr(mod, "configs") else [{}]
    out = {}
    for s in seeds:
        res = runner.run_case(mod, s, cfgs[s % len(cfgs)])
        if "harness_error" in res:
            out[s] = "HARNESS:" + res["harness_error"][-300:]
        else:
            out[s] = res["digest"] + ("!" if res.get("violation") else "")
    return out


def _pool_digests(args):
    return digests(*args)


def noise_selftest():
    from noise.connection import NoiseConnection
    from noise.exceptions import NoiseInvalidMessage
    name = b"Noise_NNpsk0_25519_ChaChaPoly_BLAKE2s"

    def pair(p1=b"k" * 32, p2=b"k" * 32):
        a = NoiseConnection.from_name(name)
        a.set_psks(p1)
        a.set_as_initiator()
        a.start_handshake()
        b = NoiseConnection.from_name(name)
        b.set_psks(p2)
        b.set_as_responder()
        b.start_handshake()
        return a, b

    def shake(a, b):
        b.read_message(a.write_message())
        a.read_message(b.write_message())
    a, b = pair()
    shake(a, b)
    for n in (0, 1, 65519):
        assert b.decrypt(a.encrypt(b"x" * n)) == b"x" * n
        assert a.decrypt(b.encrypt(b"y" * n)) == b"y" * n
    for bad in ("limit", "wrongpsk", "flip", "replay", "reorder", "trunc"):
        a, b = pair(p2=b"j" * 32 if bad == "wrongpsk" else b"k" * 32)
        try:
            if bad == "wrongpsk":
                shake(a, b)
            else:
                shake(a, b)
                if bad == "limit":
                    a.encrypt(b"x" * 65520)
                c1, c2 = a.encrypt(b"one"), a.encrypt(b"two")
                if bad == "flip":
                    b.decrypt(bytes([c1[0] ^ 1]) + c1[1:])
                elif bad == "replay":
                    b.decrypt(c1)
                    b.decrypt(c1)
                elif bad == "reorder":
                    b.decrypt(c2)
                elif bad == "trunc":
                    b.decrypt(c1[:-1])
        except NoiseInvalidMessage:
            continue
        raise AssertionError("noise selftest: %s not rejected" % bad)
    return True


def main():
    if "--digests" in sys.argv:
        i = sys.argv.index("--digests")
        junk = [bytearray(1000 + 7 * k) for k in range(5000)]  # perturb heap
        del junk[::2]
        d = digests(sys.argv[i + 1], json.loads(sys.argv[i + 2]))
        print("DIGESTS " + json.dumps(d))
        return 0
    n = 12 if "--short" in sys.argv else 300
    noise_selftest()
    print("noise self-test ok")
    bad = 0
    mods = available()
    from concurrent.futures import ProcessPoolExecutor
    import multiprocessing
    for m in mods:
        seeds = list(range(7000, 7000 + n))
        d1 = digests(m, seeds)
        junk = [bytearray(513 + 3 * k) for k in range(3000)]
        del junk[::3]
        d2 = digests(m, seeds)
        cp = subprocess.run(
            [sys.executable, "-m", "simlib.selftest", "--digests", m,
             json.dumps(seeds)], capture_output=True, text=True, cwd=HERE,
            env=dict(os.environ, PYTHONHASHSEED="0", PYTHONPATH=HERE),
            timeout=3000)
        line = [l for l in cp.stdout.splitlines() if l.startswith("DIGESTS ")]
        if not line:
            print("HARNESS-ERROR: fresh interpreter failed for %s:\n%s" %
                  (m, cp.stderr[-2000:]))
            return 1
        d3 = {int(k): v for k, v in json.loads(line[0][8:]).items()}
        with ProcessPoolExecutor(4, mp_context=multiprocessing.get_context(
                "fork")) as ex:
            parts = list(ex.map(_pool_digests,
                                [(m, seeds[i::4]) for i in range(4)]))
        d4 = {}
        for p in parts:
            d4.update(p)
        mism = [s for s in seeds
                if not (d1[s] == d2[s] == d3[s] == d4[s])]
        herr = [s for s in seeds if d1[s].startswith("HARNESS")]
        print("%s: %d seeds x 4 executions, mismatches=%d harness_errors=%d" %
              (m, len(seeds), len(mism), len(herr)))
        if mism or herr:
            for s in (mism + herr)[:3]:
                print("   seed %d: %s | %s | %s | %s" %
                      (s, d1[s], d2[s], d3[s], d4[s]))
            bad += 1
    if bad:
        print("HARNESS-ERROR: determinism self-test failed")
        return 1
    print("determinism self-test ok (%d modules)" % len(mods))
    return 0


if __name__ == "__main__":
    sys.exit(main())
