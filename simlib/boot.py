"""Process bootstrap: install every seam BEFORE wormhole (or spake2/nacl) is
imported.  Import this module first in every entry point.

Seams installed here (DESIGN.md section 2.2):
  * PYTHONHASHSEED=0 (re-exec if needed)
  * sys.path: $VERIF_REPO/src (default /repo/src) first, own `noise` package
  * os.urandom / nacl.utils.random -> per-run PRNG (RNG.reseed(seed))
  * global Twisted reactor -> SimReactor
  * time.time in wormhole.transit / wormhole.timing / mailbox server -> sim clock
  * wormhole._rendezvous.WSFactory -> message-framed stub
  * transit.allocate_tcp_port / ipaddrs.find_addresses -> simulated
  * identity-hashed objects kept in sets get a creation-serial hash
"""
import os
import sys

VERIF_DIR = os.path.dirname(os.path.dirname(os.path.abspath(__file__)))
REPO = os.environ.get("VERIF_REPO", "/repo")


def _reexec_if_needed():
    if os.environ.get("PYTHONHASHSEED") != "0":
        env = dict(os.environ)
        env["PYTHONHASHSEED"] = "0"
        os.execve(sys.executable, [sys.executable] + sys.argv, env)


_reexec_if_needed()

import random  # noqa: E402
import itertools  # noqa: E402


class _RNG:
    """Data randomness (side ids, nonces, SPAKE2 scalars, ...): a pure function
    of the run seed and the call order. Scripted bytes take precedence."""

    def __init__(self):
        self.rng = random.Random(0)
        self.script = []      # list of bytes objects to hand out first
        self.calls = 0
        self.log = None       # optional list of (n, bytes)

    def reseed(self, seed):
        self.rng = random.Random((seed * 2654435761 + 12345) & ((1 << 64) - 1))
        self.script = []
        self.calls = 0
        self.log = None
        random.seed(seed ^ 0x5eed)

    def urandom(self, n):
        self.calls += 1
        if self.script and len(self.script[0]) == n:
            b = self.script.pop(0)
        else:
            b = self.rng.randbytes(n)
        if self.log is not None:
            self.log.append((n, b))
        return b


RNG = _RNG()
_real_urandom = os.urandom
os.urandom = RNG.urandom

src = os.path.join(REPO, "src")
if not os.path.isdir(os.path.join(src, "wormhole")):
    sys.stderr.write("HARNESS-ERROR: no wormhole sources under %s\n" % src)
    sys.exit(2)
sys.path.insert(0, src)
sys.path.insert(0, os.path.join(VERIF_DIR, "simlib", "noisepkg"))
if VERIF_DIR not in sys.path:
    sys.path.insert(0, VERIF_DIR)

# -- reactor ------------------------------------------------------------------
from simlib import core  # noqa: E402
from twisted.internet import main as _main  # noqa: E402

if "twisted.internet.reactor" in sys.modules:
    sys.stderr.write("HARNESS-ERROR: a reactor was installed before boot\n")
    sys.exit(2)
core.REACTOR = core.SimReactor()
_main.installReactor(core.REACTOR)
REACTOR = core.REACTOR

# keep Twisted from printing buffered log failures to stderr
from twisted.logger import globalLogBeginner  # noqa: E402

globalLogBeginner.beginLoggingTo([lambda e: None], redirectStandardIO=False,
                                 discardBuffer=True)

# -- crypto randomness ---------------------------------------------------------
import nacl.utils  # noqa: E402


def _nacl_random(size=32):
    return RNG.urandom(size)


nacl.utils.random = _nacl_random

import spake2  # noqa: E402,F401  (binds entropy_f=os.urandom -> our seam)

# twisted.internet.task.Cooperator stops a tick after 10 ms of WALL-CLOCK time
# (task._Timer): replace the predicate by "one work unit per tick", which is a
# legal (slow machine) schedule and deterministic.
from twisted.internet import task as _task  # noqa: E402


class _OneUnitTimer:
    def __call__(self):
        return True


_task._Timer = _OneUnitTimer
_task.Cooperator.__init__.__defaults__ = tuple(
    _OneUnitTimer if d is getattr(_task, "_Timer", None) or
    getattr(d, "__name__", "") == "_Timer" else d
    for d in _task.Cooperator.__init__.__defaults__)

# -- deterministic hashes for objects the code keeps in sets --------------------
_serials = itertools.count(1)


def _serial_hash(self):
    d = self.__dict__
    s = d.get("_sim_serial")
    if s is None:
        s = d["_sim_serial"] = next(_serials)
    return s


from twisted.internet import defer as _defer  # noqa: E402

_defer.Deferred.__hash__ = _serial_hash

# -- wormhole ------------------------------------------------------------------
import wormhole  # noqa: E402

if not os.path.abspath(wormhole.__file__).startswith(os.path.abspath(src)):
    sys.stderr.write("HARNESS-ERROR: wormhole imported from %s, not %s\n" %
                     (wormhole.__file__, src))
    sys.exit(2)

from wormhole import transit as _transit, timing as _timing  # noqa: E402
from wormhole import ipaddrs as _ipaddrs  # noqa: E402
from wormhole import _rendezvous  # noqa: E402
from wormhole._dilation import connection as _dconn  # noqa: E402
from wormhole._dilation import connector as _dconnector  # noqa: E402
from wormhole._dilation import subchannel as _dsub  # noqa: E402
from wormhole._dilation import outbound as _dout  # noqa: E402

if _dconnector.NoiseConnection is None:
    sys.stderr.write("HARNESS-ERROR: own noise package not importable\n")
    sys.exit(2)


class _SimTime:
    """Stands in for the `time` module inside selected modules."""
    EPOCH = 1_700_000_000.0

    def __init__(self):
        self._last = 0.0

    def time(self):
        t = self.EPOCH + REACTOR.rightNow
        if t <= self._last:
            t = self._last + 1e-6      # strictly increasing (server_rx order)
        self._last = t
        return t

    def __getattr__(self, name):
        import time as _t
        return getattr(_t, name)


SIMTIME = _SimTime()
_transit.time = SIMTIME
_timing.time = SIMTIME
try:
    from wormhole_mailbox_server import server_websocket as _sws
    _sws.time = SIMTIME
except ImportError:      # pragma: no cover
    _sws = None

try:
    from wormhole_transit_relay import transit_server as _relay_ts
    _relay_ts.time = SIMTIME
except ImportError:      # pragma: no cover
    _relay_ts = None

if _relay_ts is not None:
    # the relay keeps protocols / per-connection state objects in sets
    from wormhole_transit_relay import server_state as _relay_ss
    for _cls in (_relay_ts.TransitConnection, _relay_ss.TransitServerState):
        _cls.__hash__ = _serial_hash

# local environment
ADDRESSES = ["127.0.0.1", "10.1.0.1"]


def _find_addresses():
    return list(ADDRESSES)


_ipaddrs.find_addresses = _find_addresses


def _allocate_tcp_port():
    return REACTOR.net.alloc_port()


_transit.allocate_tcp_port = _allocate_tcp_port

for _cls in (_dconn.DilatedConnectionProtocol, _dsub.SubChannel,
             _dout.PullToPush, _transit.Connection):
    _cls.__hash__ = _serial_hash

# WebSocket stub
from simlib import ws as _ws  # noqa: E402

_rendezvous.WSFactory = _ws.StubWSFactory


def new_run(seed):
    """Reset all process-global per-run state. Returns nothing; callers then
    build a Sim."""
    global _serials
    RNG.reseed(seed)
    ADDRESSES[:] = ["127.0.0.1", "10.1.0.1"]
    SIMTIME._last = 0.0
    # restart serial numbering so hashes do not depend on earlier runs
    _serials = itertools.count(1)
