"""The decision tape: every nondeterministic choice of a run goes through here.

Search mode: values come from random.Random(seed) and are recorded.
Replay mode: values come from a recorded list.
  strict   -> (n, value) must match what the code asks for, else TapeDivergence
  tolerant -> value % n, 0 when exhausted (0 is always the "boring" choice)
Nothing in here reads a clock, and logging never draws from the tape.
"""
import random


class TapeDivergence(Exception):
    pass


class Tape:
    __slots__ = ("seed", "rng", "decisions", "replay", "pos", "strict",
                 "nonzero", "limit")

    def __init__(self, seed=0, replay=None, strict=False):
        self.seed = seed
        self.rng = random.Random(seed)
        self.decisions = []      # list of [n, value]
        self.replay = replay     # list of [n, value] or None
        self.pos = 0
        self.strict = strict
        self.nonzero = 0         # number of non-boring decisions taken

    # -- core ---------------------------------------------------------
    def choose(self, n, label=None):
        """Return an int in [0, n)."""
        if n <= 1:
            return 0
        if self.replay is None:
            v = self.rng.randrange(n)
        else:
            if self.pos < len(self.replay):
                rn, rv = self.replay[self.pos]
                if self.strict and rn != n:
                    raise TapeDivergence(
                        "decision %d: recorded n=%d, asked n=%d (%s)" %
                        (self.pos, rn, n, label))
                v = rv % n
            else:
                if self.strict:
                    raise TapeDivergence("tape exhausted at %d (%s)" %
                                         (self.pos, label))
                v = 0
            self.pos += 1
        self.decisions.append([n, v])
        if v:
            self.nonzero += 1
        return v

    def weighted(self, weights, label=None):
        """Pick an index with probability proportional to (integer) weights.
        Recorded as the *index* so that shrinking towards 0 means 'first'."""
        n = len(weights)
        if n <= 1:
            return 0
        if self.replay is None:
            total = 0
            for w in weights:
                total += w
            r = self.rng.randrange(total) if total > 0 else 0
            v = 0
            for i, w in enumerate(weights):
                if r < w:
                    v = i
                    break
                r -= w
            self.decisions.append([n, v])
            if v:
                self.nonzero += 1
            return v
        return self.choose(n, label)

    def chance(self, permille, label=None):
        """True with probability permille/1000; value 0 means False."""
        if permille <= 0:
            return False
        return self.choose(1000, label) >= 1000 - permille

    def pick(self, seq, label=None):
        return seq[self.choose(len(seq), label)]

    def randint(self, lo, hi, label=None):
        """Inclusive range; 0 maps to lo."""
        return lo + self.choose(hi - lo + 1, label)

    def bytes(self, k, label=None):
        """k tape-controlled bytes (each its own decision so ddmin can zero them);
        use only for short strings. For bulk payloads use blob()."""
        return bytes(self.choose(256, label) for _ in range(k))

    def blob(self, k, tag=0):
        """k pseudo-random bytes derived from ONE tape decision (cheap, still
        deterministic under replay)."""
        s = self.choose(1 << 30, "blob")
        return random.Random((s << 8) ^ tag).randbytes(k)
