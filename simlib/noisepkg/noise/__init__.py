"""Minimal stand-in for the `noiseprotocol` package (absent in this sandbox).

Own implementation of Noise_NNpsk0_25519_ChaChaPoly_BLAKE2s exposing exactly the
API magic-wormhole's Dilation code uses.  See /verif/DESIGN.md section 3.3: it
is self-checked, NOT checked against the reference package or official vectors.
"""
