import hashlib
import hmac
import os
import struct

from cryptography.exceptions import InvalidTag
from cryptography.hazmat.primitives.asymmetric.x25519 import (
    X25519PrivateKey, X25519PublicKey)
from cryptography.hazmat.primitives.ciphers.aead import ChaCha20Poly1305
from cryptography.hazmat.primitives import serialization

from .exceptions import (NoiseHandshakeError, NoiseInvalidMessage,
                         NoiseProtocolNameError, NoiseValueError)

MAX_MESSAGE_LEN = 65535
HASHLEN = 32
DHLEN = 32
TAGLEN = 16
SUPPORTED = b"Noise_NNpsk0_25519_ChaChaPoly_BLAKE2s"


def _hash(data):
    return hashlib.blake2s(data).digest()


def _hmac(key, data):
    return hmac.new(key, data, hashlib.blake2s).digest()


def _hkdf(ck, ikm, n):
    temp = _hmac(ck, ikm)
    o1 = _hmac(temp, b"\x01")
    o2 = _hmac(temp, o1 + b"\x02")
    if n == 2:
        return o1, o2
    o3 = _hmac(temp, o2 + b"\x03")
    return o1, o2, o3


class _Cipher:
    def __init__(self):
        self.k = None
        self.n = 0

    def init(self, k):
        self.k = k
        self.n = 0
        self._aead = ChaCha20Poly1305(k)

    def _nonce(self):
        return b"\x00\x00\x00\x00" + struct.pack("<Q", self.n)

    def encrypt(self, ad, pt):
        if self.k is None:
            return pt
        ct = self._aead.encrypt(self._nonce(), pt, ad)
        self.n += 1
        return ct

    def decrypt(self, ad, ct):
        if self.k is None:
            return ct
        try:
            pt = self._aead.decrypt(self._nonce(), ct, ad)
        except InvalidTag:
            raise NoiseInvalidMessage("Failed authentication of message")
        self.n += 1
        return pt


class NoiseConnection:
    def __init__(self):
        self._psk = None
        self._initiator = None
        self._started = False
        self.handshake_finished = False
        self._msg_index = 0

    @classmethod
    def from_name(cls, name):
        if isinstance(name, str):
            name = name.encode("ascii")
        if name != SUPPORTED:
            raise NoiseProtocolNameError(name)
        return cls()

    def set_psks(self, psk=None, psks=None):
        if psks is not None:
            psk = psks[0]
        if not isinstance(psk, bytes) or len(psk) != 32:
            raise NoiseValueError("psk must be 32 bytes")
        self._psk = psk

    def set_as_initiator(self):
        self._initiator = True

    def set_as_responder(self):
        self._initiator = False

    def set_prologue(self, prologue):
        self._prologue = prologue

    # symmetric state helpers
    def _mix_hash(self, data):
        self._h = _hash(self._h + data)

    def _mix_key(self, ikm):
        self._ck, temp_k = _hkdf(self._ck, ikm, 2)
        self._c.init(temp_k)

    def _mix_key_and_hash(self, ikm):
        self._ck, temp_h, temp_k = _hkdf(self._ck, ikm, 3)
        self._mix_hash(temp_h)
        self._c.init(temp_k)

    def _encrypt_and_hash(self, pt):
        ct = self._c.encrypt(self._h, pt)
        self._mix_hash(ct)
        return ct

    def _decrypt_and_hash(self, ct):
        pt = self._c.decrypt(self._h, ct)
        self._mix_hash(ct)
        return pt

    def start_handshake(self):
        if self._initiator is None:
            raise NoiseHandshakeError("role not set")
        if self._psk is None:
            raise NoiseHandshakeError("psk not set")
        self._h = _hash(SUPPORTED) if len(SUPPORTED) > HASHLEN else \
            SUPPORTED.ljust(HASHLEN, b"\x00")
        self._ck = self._h
        self._c = _Cipher()
        self._mix_hash(getattr(self, "_prologue", b""))
        self._e = None
        self._re = None
        self._started = True

    def _gen_e(self):
        sk = X25519PrivateKey.from_private_bytes(os.urandom(32))
        pub = sk.public_key().public_bytes(serialization.Encoding.Raw,
                                           serialization.PublicFormat.Raw)
        return sk, pub

    def _split(self):
        k1, k2 = _hkdf(self._ck, b"", 2)
        c1, c2 = _Cipher(), _Cipher()
        c1.init(k1)
        c2.init(k2)
        if self._initiator:
            self._send, self._recv = c1, c2
        else:
            self._send, self._recv = c2, c1
        self.handshake_finished = True

    def write_message(self, payload=b""):
        if not self._started or self.handshake_finished:
            raise NoiseHandshakeError("not in handshake")
        if self._initiator and self._msg_index == 0:
            # -> psk, e
            self._mix_key_and_hash(self._psk)
            self._e, pub = self._gen_e()
            self._mix_hash(pub)
            self._mix_key(pub)
            out = pub + self._encrypt_and_hash(payload)
            self._msg_index = 1
            return out
        if (not self._initiator) and self._msg_index == 1:
            # <- e, ee
            self._e, pub = self._gen_e()
            self._mix_hash(pub)
            self._mix_key(pub)
            self._mix_key(self._e.exchange(self._re))
            out = pub + self._encrypt_and_hash(payload)
            self._msg_index = 2
            self._split()
            return out
        raise NoiseHandshakeError("not my turn to write")

    def read_message(self, data):
        if not self._started or self.handshake_finished:
            raise NoiseHandshakeError("not in handshake")
        data = bytes(data)
        if len(data) > MAX_MESSAGE_LEN:
            raise NoiseInvalidMessage("message too long")
        if len(data) < DHLEN:
            raise NoiseInvalidMessage("handshake message too short")
        if (not self._initiator) and self._msg_index == 0:
            self._mix_key_and_hash(self._psk)
            repub = data[:DHLEN]
            self._re = X25519PublicKey.from_public_bytes(repub)
            self._mix_hash(repub)
            self._mix_key(repub)
            payload = self._decrypt_and_hash(data[DHLEN:])
            self._msg_index = 1
            return payload
        if self._initiator and self._msg_index == 1:
            repub = data[:DHLEN]
            self._re = X25519PublicKey.from_public_bytes(repub)
            self._mix_hash(repub)
            self._mix_key(repub)
            try:
                shared = self._e.exchange(self._re)
            except ValueError:
                raise NoiseInvalidMessage("bad public key")
            self._mix_key(shared)
            payload = self._decrypt_and_hash(data[DHLEN:])
            self._msg_index = 2
            self._split()
            return payload
        raise NoiseHandshakeError("not my turn to read")

    def encrypt(self, data):
        if not self.handshake_finished:
            raise NoiseHandshakeError("handshake not finished")
        if len(data) + TAGLEN > MAX_MESSAGE_LEN:
            raise NoiseInvalidMessage(
                "Message must be shorter than %d bytes" % MAX_MESSAGE_LEN)
        return self._send.encrypt(b"", bytes(data))

    def decrypt(self, data):
        if not self.handshake_finished:
            raise NoiseHandshakeError("handshake not finished")
        if len(data) > MAX_MESSAGE_LEN:
            raise NoiseInvalidMessage(
                "Message must be shorter than %d bytes" % MAX_MESSAGE_LEN)
        return self._recv.decrypt(b"", bytes(data))
