"""Simulated reactor, network and discrete-event scheduler.

One process, one clock, one tape.  The SimReactor is installed as the global
Twisted reactor (simlib.boot) and re-initialised for every run by Sim().
"""
import hashlib
import heapq  # noqa: F401  (kept for clarity: Clock keeps a sorted list)
import itertools

from zope.interface import implementer
from twisted.internet import error, interfaces
from twisted.internet.address import IPv4Address
from twisted.internet.base import BaseConnector
from twisted.internet.defer import succeed
from twisted.internet.testing import MemoryReactorClock
from twisted.python import failure, log


class HarnessError(Exception):
    """Something is wrong with the simulator or a check (never a VIOLATION)."""


START_TIME = 1000.0


# ----------------------------------------------------------------------------
# name resolution
@implementer(interfaces.IHostnameResolver)
class TableResolver:
    def __init__(self):
        self.table = {}

    def resolveHostName(self, resolutionReceiver, hostName, portNumber=0,
                        addressTypes=None, transportSemantics="TCP"):
        from twisted.internet.abstract import isIPAddress

        class _Res:
            name = hostName

            def cancel(self_):
                pass
        resolutionReceiver.resolutionBegan(_Res())
        if isIPAddress(hostName):
            addrs = [hostName]
        else:
            addrs = self.table.get(hostName, [])
        for a in addrs:
            resolutionReceiver.addressResolved(
                IPv4Address("TCP", a, portNumber))
        resolutionReceiver.resolutionComplete()
        return resolutionReceiver


# ----------------------------------------------------------------------------
class _Attempt:
    """An outstanding connectTCP (what tcp.Client is before it connects)."""

    def __init__(self, net, connector, host, port):
        self.net = net
        self.connector = connector
        self.host = host
        self.port = port
        self.serial = next(net.serials)
        self.done = False
        self.link = None      # set once the network 'established' it

    def failIfNotConnected(self, err):
        # called by connector timeout / stopConnecting
        if self.done:
            return
        self.done = True
        self.net.attempt_finished(self)
        if self.link is not None:
            # the SYN was answered but we never told the client protocol:
            # the OS socket gets closed, the server side sees a drop
            self.net.sim.note("attempt_abandoned_after_accept")
            self.link.kill_from_client_attempt()
        self.connector.connectionFailed(failure.Failure(err))

    # BaseConnector.disconnect() calls transport.loseConnection() when
    # 'connected'; by then connector.transport has been replaced by the real
    # SimTransport.


class SimConnector(BaseConnector):
    def __init__(self, net, host, port, factory, timeout, reactor):
        BaseConnector.__init__(self, factory, timeout, reactor)
        self.net = net
        self.host = host
        self.port = port

    def _makeTransport(self):
        a = _Attempt(self.net, self, self.host, self.port)
        self.net.attempts.append(a)
        self.net.dial_log.append((self.host, self.port))
        return a

    def getDestination(self):
        return IPv4Address("TCP", self.host, self.port)


@implementer(interfaces.IListeningPort)
class SimPort:
    def __init__(self, net, port, factory, interface):
        self.net = net
        self.port = port
        self.factory = factory
        self.interface = interface
        self.serial = next(net.serials)
        self.listening = False

    def __hash__(self):
        return self.serial

    def startListening(self):
        if self.port in self.net.listeners:
            raise error.CannotListenError(self.interface, self.port,
                                          "address in use (sim)")
        self.net.listeners[self.port] = self
        self.listening = True
        self.factory.doStart()

    def stopListening(self):
        if self.listening:
            self.listening = False
            del self.net.listeners[self.port]
            self.factory.doStop()
            self.net.sim.ev("unlisten", self.port)
            # connections still waiting in the accept queue die with the
            # listening socket
            for link in self.net.links:
                if getattr(link, "server_port", None) is self and \
                        not link.ends[1].made and link.up:
                    self.net.sim.note("unaccepted_connection_reset")
                    link.ends[1].made = True
                    link.ends[1].alive = False
                    self.net.cut(link, tell=("c",))
        return succeed(None)

    def getHost(self):
        return IPv4Address("TCP", self.interface or "0.0.0.0", self.port)


# ----------------------------------------------------------------------------
@implementer(interfaces.ITCPTransport, interfaces.IConsumer,
             interfaces.IPushProducer)
class SimTransport:
    """Twisted-contract transport on one end of a simulated link."""
    bufferSize = 2 ** 16

    def __init__(self, end):
        self.end = end
        self.connected = 1
        self.disconnecting = 0
        self.disconnected = 0
        self.producer = None
        self.streamingProducer = False
        self.producerPaused = False

    def __hash__(self):
        return self.end.serial

    # -- writing ---------------------------------------------------------
    def write(self, data):
        end = self.end
        if not isinstance(data, (bytes, bytearray, memoryview)):
            raise TypeError("Data must be bytes")
        # like abstract.FileDescriptor.write: data written after
        # loseConnection() is still sent before the connection closes (the
        # close completes in a later reactor iteration: until this end has
        # been told connectionLost, what it writes still goes out - the peer
        # sees it ahead of the EOF)
        if not end.alive or not data:
            return
        end.net.sim.stat_bytes += len(data)
        if end.net.sim.on_write is not None:
            end.net.sim.on_write(end, bytes(data))
        end.push_out(bytes(data))
        if self.producer is not None and self.streamingProducer:
            if end.sendbuf_len() > end.net.high_water:
                self.producerPaused = True
                end.net.sim.note("transport_pause")
                self.producer.pauseProducing()
                # transport variant (off by default): the data is taken off
                # the transport's hands at once, so the drain signal arrives
                # while the caller is still inside write()
                hook = end.net.sync_drain
                if hook is not None and self.producerPaused and \
                        self.producer is not None and hook(end):
                    end.net.sim.note("fault.sync_drain")
                    end.net.flush_end(end)

    def writeSequence(self, iovec):
        for d in iovec:
            self.write(d)

    def loseConnection(self, _reason=None):
        end = self.end
        if not end.alive or self.disconnecting:
            return
        self.disconnecting = 1
        if not end.net.read_after_lose:
            end.read_stopped = True
        end.maybe_finish_close()

    def abortConnection(self):
        end = self.end
        if not end.alive:
            return
        self.disconnecting = 1
        end.read_stopped = True
        end.clear_out()
        end.net.abort(end)

    def loseWriteConnection(self):
        raise NotImplementedError("half-close is not simulated")

    def getPeer(self):
        return self.end.peer_addr

    def getHost(self):
        return self.end.host_addr

    def setTcpNoDelay(self, enabled):
        pass

    def getTcpNoDelay(self):
        return False

    def setTcpKeepAlive(self, enabled):
        pass

    def getTcpKeepAlive(self):
        return False

    # -- IConsumer ---------------------------------------------------------
    def registerProducer(self, producer, streaming):
        if self.producer is not None:
            raise RuntimeError(
                "Cannot register producer %s, because producer %s was never "
                "unregistered." % (producer, self.producer))
        if not self.end.alive:
            producer.stopProducing()
            return
        self.producer = producer
        self.streamingProducer = streaming
        self.producerPaused = False
        if not streaming:
            producer.resumeProducing()

    def unregisterProducer(self):
        self.producer = None
        if self.disconnecting:
            self.end.maybe_finish_close()

    # -- IPushProducer (read side) ------------------------------------------
    def pauseProducing(self):
        self.end.read_paused = True
        self.end.net.sim.note("read_pause")

    def resumeProducing(self):
        self.end.read_paused = False

    def stopProducing(self):
        self.loseConnection()

    # called by the network when the send buffer has just become empty
    def _buffer_empty(self):
        if self.producer is not None and (
                (not self.streamingProducer) or self.producerPaused):
            self.producerPaused = False
            self.end.net.sim.note("transport_resume")
            self.producer.resumeProducing()
        elif self.disconnecting:
            self.end.maybe_finish_close()


class End:
    """One end of a link."""

    def __init__(self, link, role, host_addr, peer_addr):
        self.link = link
        self.net = link.net
        self.role = role            # "c" (connecting side) or "s" (accepting)
        self.serial = next(self.net.serials)
        self.host_addr = host_addr
        self.peer_addr = peer_addr
        self.protocol = None
        self.transport = None
        self.made = False           # connectionMade delivered
        self.alive = True           # connectionLost not yet delivered
        self.read_paused = False
        self.read_stopped = False
        self.stalled = False        # fault: receiver does not drain
        self.rate = None            # slow path: bytes per simulated second
        #                             that can be delivered to this end
        self.rate_burst = 0
        self.tokens = 0.0
        self.tokens_t = None
        self.rate_wake = None       # pending DelayedCall that refills
        self.lost_pending = None    # Failure to deliver as connectionLost
        self.fin_sent = False
        self.fin_inbound = False    # peer's FIN queued behind self.inflight
        self.rx_count = 0           # bytes/messages handed to the protocol
        self.tx_count = 0
        if link.mode == "stream":
            self.sendbuf = bytearray()
            self.inflight = bytearray()
        else:
            self.sendbuf = []
            self.inflight = []
        self.owner = None           # set by worlds (who is behind this end)
        self.tag = None

    @property
    def peer(self):
        return self.link.ends[1] if self is self.link.ends[0] else \
            self.link.ends[0]

    def sendbuf_len(self):
        if self.link.mode == "stream":
            return len(self.sendbuf)
        return sum(len(m) for m in self.sendbuf)

    def push_out(self, data):
        self.tx_count += len(data) if self.link.mode == "stream" else 1
        if self.link.mode == "stream":
            self.sendbuf += data
        else:
            self.sendbuf.append(data)
        self.net.dirty.add(self)

    def clear_out(self):
        if self.link.mode == "stream":
            del self.sendbuf[:]
        else:
            del self.sendbuf[:]

    def has_inflight(self):
        return len(self.inflight) > 0

    def maybe_finish_close(self):
        """loseConnection() was called: once the send buffer is empty (and no
        producer holds us open) send FIN and schedule our own connectionLost."""
        t = self.transport
        if not self.alive or not t.disconnecting or self.fin_sent:
            return
        if len(self.sendbuf):
            return
        self.fin_sent = True
        if self.link.up and not self.link.blackhole:
            self.peer.fin_inbound = True
        if self.lost_pending is None:
            self.lost_pending = failure.Failure(error.ConnectionDone())

    def describe(self):
        return "%s%d" % (self.role, self.serial)


class Link:
    def __init__(self, net, mode, client_addr, server_addr):
        self.net = net
        self.mode = mode            # "stream" | "message"
        self.serial = next(net.serials)
        self.up = True              # False once cut
        self.blackhole = False      # bytes vanish, nobody is told
        self.latency = 0.0          # stream links: seconds from flush to arrival
        self.ends = (End(self, "c", client_addr, server_addr),
                     End(self, "s", server_addr, client_addr))
        self.attempt = None
        self.tamper = None          # optional callable(end_to, data) -> data
        self.chunker = None         # optional callable(end, n, tape) -> k
        self.owner = None           # set by worlds
        self.picker = None          # message mode: callable(end) -> index
        self.tap = None             # callable(end, data) just before delivery
        self.label = None

    def kill_from_client_attempt(self):
        # client gave up before its connectionMade: server side sees a drop
        c, s = self.ends
        c.alive = False
        c.made = True
        self.up = False
        if s.alive and s.lost_pending is None:
            s.lost_pending = failure.Failure(error.ConnectionLost())
        s.clear_out()
        del s.inflight[:]


class Net:
    def __init__(self, sim):
        self.sim = sim
        self.serials = itertools.count(1)
        self.listeners = {}
        self.attempts = []
        self.links = []
        self.dirty = set()          # ends with unflushed sendbuf
        self.next_port = 40000
        self.next_client = 1
        self.host_mode = {}         # host -> "ok" | "refuse" | "hang"
        self.port_mode = {}         # port -> "ok" | "refuse" | "hang"
        self.high_water = 2 ** 16
        # ITransport variant (TLS-like / wrapped transports): inbound data keeps
        # being delivered between loseConnection() and connectionLost. Kernel
        # TCP under Twisted stops reading at once (default)
        self.read_after_lose = False
        self.sync_drain = None      # callable(end) -> bool, see SimTransport.write
        self.window = 1 << 30       # max bytes in flight per direction
        self.autoflush = True
        self.mode_for_port = {}     # port -> "message" for websocket stubs
        self.dial_log = []          # every connectTCP (host, port)

    def alloc_port(self):
        self.next_port += 1
        return self.next_port

    def attempt_finished(self, a):
        try:
            self.attempts.remove(a)
        except ValueError:
            pass

    # -- establishing ---------------------------------------------------------
    def attempt_state(self, a):
        hm = self.host_mode.get(a.host, "ok")
        pm = self.port_mode.get(a.port, "ok")
        if hm == "hang" or pm == "hang":
            return "hang"
        if hm == "refuse" or pm == "refuse" or a.port not in self.listeners:
            return "refuse"
        return "ok"

    def resolve_attempt(self, a):
        st = self.attempt_state(a)
        if st == "hang":
            raise HarnessError("resolve of hanging attempt")
        if st == "refuse":
            a.done = True
            self.attempt_finished(a)
            self.sim.ev("refused", a.serial)
            self.sim.note("connect_refused")
            a.connector.connectionFailed(
                failure.Failure(error.ConnectionRefusedError()))
            return None
        port = self.listeners[a.port]
        chost = "10.77.0.%d" % (self.next_client % 250 + 1)
        self.next_client += 1
        caddr = IPv4Address("TCP", chost, self.alloc_port())
        saddr = IPv4Address("TCP", a.host, a.port)
        link = Link(self, self.mode_for_port.get(a.port, "stream"),
                    caddr, saddr)
        link.attempt = a
        link.server_port = port
        a.link = link
        self.links.append(link)
        self.attempt_finished(a)
        self.sim.ev("established", a.serial, link.serial)
        if self.sim.on_link:
            self.sim.on_link(link)
        return link

    def make_end(self, end):
        """Deliver connectionMade on one end."""
        link = end.link
        end.made = True
        if end.role == "c":
            a = link.attempt
            if a.done:       # abandoned meanwhile
                end.alive = False
                return
            a.done = True
            proto = a.connector.buildProtocol(end.peer_addr)
            end.transport = SimTransport(end)
            a.connector.transport = end.transport
            if proto is None:
                end.protocol = None
                end.transport.loseConnection()
                return
            end.protocol = proto
        else:
            proto = link.server_port.factory.buildProtocol(end.peer_addr)
            end.transport = SimTransport(end)
            if proto is None:
                end.transport.loseConnection()
                return
            end.protocol = proto
        if self.sim.on_end_made:
            self.sim.on_end_made(end)
        try:
            proto.makeConnection(end.transport)
        except Exception:
            # tcp.Port.doRead logs and carries on; tcp.Client drops the link
            f = failure.Failure()
            self.sim.note("exception_in_connectionMade")
            log.err(f, "sim: exception in connectionMade")
            if end.role == "c":
                self.fail_end(end, f)

    # -- moving bytes ---------------------------------------------------------
    def flush_end(self, end, limit=None):
        """Move bytes from end.sendbuf into the network (peer.inflight)."""
        link = end.link
        peer = end.peer
        if link.up and not peer.alive and peer.made and end.alive:
            # the far socket is closed: our data meets a RST
            self.sim.note("write_to_closed_peer_reset")
            link.up = False
            end.fin_inbound = False
            if end.lost_pending is None or end.lost_pending.check(
                    error.ConnectionDone):
                end.lost_pending = failure.Failure(error.ConnectionLost())
        if link.mode == "stream":
            n = len(end.sendbuf)
            room = self.window - len(peer.inflight)
            k = n if limit is None else min(n, limit)
            k = min(k, room) if link.up and not link.blackhole else k
            if k <= 0:
                return 0
            data = bytes(end.sendbuf[:k])
            del end.sendbuf[:k]
            if link.up and not link.blackhole:
                if link.tamper:
                    data = link.tamper(peer, data)
                if link.latency:
                    # propagation delay (constant, so order is kept). Only a
                    # graceful close is not delayed with it: used where no
                    # data rides behind a FIN (C16)
                    self.sim.reactor.callLater(link.latency, self._arrive,
                                               link, peer, data)
                else:
                    peer.inflight += data
        else:
            k = len(end.sendbuf) if limit is None else min(len(end.sendbuf),
                                                           limit)
            if k <= 0:
                return 0
            msgs = end.sendbuf[:k]
            del end.sendbuf[:k]
            if link.up and not link.blackhole:
                for m in msgs:
                    if link.tamper:
                        out = link.tamper(peer, m)
                        if out is None:
                            continue
                        if isinstance(out, list):
                            peer.inflight.extend(out)
                            continue
                        m = out
                    peer.inflight.append(m)
        if not len(end.sendbuf):
            self.dirty.discard(end)
            if end.alive and end.transport is not None:
                end.transport._buffer_empty()
        return k

    def _arrive(self, link, peer, data):
        if link.up and not link.blackhole and peer.alive:
            peer.inflight += data

    def autoflush_all(self):
        n = 0
        while self.dirty:
            n += 1
            if n > 100000:
                raise HarnessError("autoflush does not terminate")
            end = min(self.dirty, key=lambda e: e.serial)
            if self.flush_end(end) == 0:
                self.dirty.discard(end)

    def deliver(self, end, k):
        link = end.link
        if link.mode == "stream":
            data = bytes(end.inflight[:k])
            del end.inflight[:k]
            end.rx_count += len(data)
            if self.autoflush and len(end.peer.sendbuf) and end.peer.alive:
                self.dirty.add(end.peer)    # room in the window again
        else:
            idx = 0
            if link.picker is not None and len(end.inflight) > 1:
                idx = link.picker(end)
            data = end.inflight.pop(idx)
            end.rx_count += 1
        proto = end.protocol
        if link.tap is not None:
            link.tap(end, data)
        try:
            proto.dataReceived(data)
        except Exception:
            # what Twisted's reactor does: log it, drop the connection
            f = failure.Failure()
            self.sim.note("exception_in_dataReceived")
            log.err(f, "sim: exception in dataReceived")
            self.fail_end(end, f)

    def fail_end(self, end, f):
        """Abortive local close of one end right now."""
        if not end.alive:
            return
        end.clear_out()
        self.dirty.discard(end)
        self.lose_now(end, f)
        peer = end.peer
        if end.link.up and peer.alive:
            peer.fin_inbound = True   # peer sees an orderly close after data
        end.link.up = end.link.up

    def abort(self, end):
        # RST: we learn at once (scheduled), peer loses unread data
        if end.lost_pending is None:
            end.lost_pending = failure.Failure(error.ConnectionAborted())
        peer = end.peer
        if end.link.up:
            end.link.up = False
            del peer.inflight[:]
            if peer.alive and peer.lost_pending is None:
                peer.lost_pending = failure.Failure(error.ConnectionLost())

    def lose_now(self, end, f):
        """Deliver connectionLost to one end."""
        if not end.alive:
            return
        end.alive = False
        end.lost_pending = None
        self.dirty.discard(end)
        t = end.transport
        if t is not None:
            t.connected = 0
            t.disconnected = 1
            producer, t.producer = t.producer, None
            if producer is not None:
                try:
                    producer.stopProducing()
                except Exception:
                    log.err(failure.Failure(), "sim: stopProducing raised")
        proto = end.protocol
        if proto is not None:
            try:
                proto.connectionLost(f)
            except Exception:
                self.sim.note("exception_in_connectionLost")
                log.err(failure.Failure(), "sim: exception in connectionLost")
        if end.role == "c" and end.link.attempt is not None:
            c = end.link.attempt.connector
            if c.state == "connected":
                c.connectionLost(f)

    # -- faults ---------------------------------------------------------
    def cut(self, link, tell=("c", "s")):
        """Kill a link at the current byte position. `tell` says which ends
        learn about it (each as its own scheduled event)."""
        link.up = False
        for end in link.ends:
            del end.inflight[:]
            end.fin_inbound = False
            if end.role in tell and end.alive and end.lost_pending is None \
                    and end.made:
                end.lost_pending = failure.Failure(error.ConnectionLost())
            elif end.role in tell and not end.made:
                end.cut_before_made = True

    def reveal(self, link):
        """Make a dead link visible to ends that were not told yet."""
        for end in link.ends:
            if end.alive and end.made and end.lost_pending is None:
                end.lost_pending = failure.Failure(error.ConnectionLost())


# ----------------------------------------------------------------------------
class SimReactor(MemoryReactorClock):
    """Global reactor. Time only moves when the scheduler says so."""

    def __init__(self):
        MemoryReactorClock.__init__(self)
        self.running = True
        self.net = None
        self.resolver = TableResolver()
        self.nameResolver = self.resolver

    def reset(self, net):
        self.calls[:] = []
        self.rightNow = START_TIME
        self.net = net
        self.resolver.table.clear()
        self.nameResolver = self.resolver
        self.tcpClients[:] = []
        self.tcpServers[:] = []
        if hasattr(self, "triggers"):
            self.triggers.clear()
        if hasattr(self, "whenRunningHooks"):
            self.whenRunningHooks[:] = []

    def installNameResolver(self, r):
        old, self.nameResolver = self.nameResolver, r
        return old

    def connectTCP(self, host, port, factory, timeout=30, bindAddress=None):
        c = SimConnector(self.net, host, port, factory, timeout, self)
        c.connect()
        return c

    def listenTCP(self, port, factory, backlog=50, interface=""):
        if port == 0:
            port = self.net.alloc_port()
        p = SimPort(self.net, port, factory, interface)
        p.startListening()
        self.net.sim.ev("listen", port)
        if self.net.sim.on_listen:
            self.net.sim.on_listen(p)
        return p

    def callWhenRunning(self, f, *a, **kw):
        self.callLater(0, f, *a, **kw)

    def callFromThread(self, f, *a, **kw):
        self.callLater(0, f, *a, **kw)

    def stop(self):
        pass

    # -- timers ---------------------------------------------------------
    def next_timer(self):
        return self.calls[0].getTime() if self.calls else None

    def run_due_timer(self):
        call = self.calls.pop(0)
        call.called = 1
        try:
            call.func(*call.args, **call.kw)
        except Exception:
            # what ReactorBase.runUntilCurrent does
            self.net.sim.note("exception_in_timer")
            log.err(failure.Failure(), "sim: exception in delayed call")


REACTOR = None   # set by simlib.boot


# ----------------------------------------------------------------------------
class Sim:
    """One simulated execution: network + scheduler + event log."""

    W_DEFAULT = dict(timer=8, made=6, deliver=6, flush=4, lost=3, conn=4,
                     eof=3, app=3, fault=1, advance=1)

    def __init__(self, tape, reactor=None):
        self.tape = tape
        self.reactor = reactor or REACTOR
        self.net = Net(self)
        self.reactor.reset(self.net)
        self.digest = hashlib.blake2b(digest_size=16)
        self.nevents = 0
        self.steps = 0
        self.notes = {}          # probe/fault counters
        self.trace = None        # optional list of event strings
        self.weights = dict(self.W_DEFAULT)
        self.msg_burst = False      # message links: several frames per read
        self.chunk_mode = "mixed"
        self.on_link = None
        self.on_end_made = None
        self.on_listen = None
        self.on_write = None     # callable(end, data) at transport.write time
        self.app_events = None   # callable() -> list of (label, fn)
        self.fault_events = None  # callable() -> list of (label, fn)
        self.after_step = None   # callable() ; oracle hook
        self.chaos = True
        self.stat_bytes = 0
        self.logged = []         # twisted log errors: (type name, text)
        self.allow_advance = True
        self.no_advance_while_connecting = False
        self.horizon = None      # simulated-time cap of the current run()

    # -- logging ---------------------------------------------------------
    def ev(self, *parts):
        self.nevents += 1
        s = "%.6f|%s" % (self.reactor.rightNow,
                         "|".join(str(p) for p in parts))
        self.digest.update(s.encode("utf-8", "backslashreplace"))
        self.digest.update(b"\n")
        if self.trace is not None:
            self.trace.append(s)

    def note(self, name, n=1):
        self.notes[name] = self.notes.get(name, 0) + n

    def now(self):
        return self.reactor.rightNow

    # -- swarm configuration ---------------------------------------------
    def randomize(self):
        t = self.tape
        for k in self.weights:
            self.weights[k] = self.W_DEFAULT[k] * t.pick((1, 1, 2, 4), "w")
        self.chunk_mode = t.pick(("mixed", "all", "mixed", "small"), "chunk")

    # -- enabled events ---------------------------------------------------
    def _enabled(self):
        evs = []
        w = self.weights
        r = self.reactor
        now = r.rightNow
        if r.calls and r.calls[0].getTime() <= now:
            evs.append((w["timer"], "timer", None))
        net = self.net
        for a in net.attempts:
            if net.attempt_state(a) != "hang":
                evs.append((w["conn"], "conn", a))
        any_io = False
        for link in net.links:
            for end in link.ends:
                if not end.made:
                    if end.role == "c" and link.attempt.done:
                        continue
                    evs.append((w["made"], "made", end))
                    any_io = True
                    continue
                if not end.alive:
                    continue
                if not net.autoflush and len(end.sendbuf) and \
                        (link.mode != "stream" or not link.up or
                         link.blackhole or not end.peer.alive or
                         len(end.peer.inflight) < net.window):
                    evs.append((w["flush"], "flush", end))
                    any_io = True
                if end.lost_pending is not None:
                    evs.append((w["lost"], "lost", end))
                    any_io = True
                    if not (net.read_after_lose and not end.read_stopped and
                            end.transport.disconnecting and link.up and
                            len(end.inflight) and not end.read_paused):
                        continue
                    # (read_after_lose) the orderly close we asked for has not
                    # been reported yet: what is in flight may still arrive
                    evs.append((w["deliver"], "deliver", end))
                    continue
                if end.read_stopped or end.protocol is None:
                    if len(end.inflight):
                        del end.inflight[:]
                    # a closing end still notices the peer's FIN only via its
                    # own close completing; nothing to deliver
                    continue
                if end.read_paused or end.stalled:
                    continue
                if len(end.inflight) and end.rate is not None and \
                        link.mode == "stream":
                    if not self._rate_ready(end, now):
                        continue
                if len(end.inflight):
                    evs.append((w["deliver"], "deliver", end))
                    any_io = True
                elif end.fin_inbound:
                    evs.append((w["eof"], "eof", end))
                    any_io = True
        if self.app_events is not None:
            for label, fn in self.app_events():
                evs.append((w["app"], "app", (label, fn)))
        if self.chaos and self.fault_events is not None:
            for item in self.fault_events():
                mult = item[2] if len(item) > 2 else 1
                evs.append((w["fault"] * mult, "fault", (item[0], item[1])))
        if evs and self.allow_advance and r.calls and \
                r.calls[0].getTime() > now and self.chaos and \
                not (self.no_advance_while_connecting and
                     (net.attempts or any(
                         not l.ends[0].made and not l.attempt.done
                         for l in net.links))):
            evs.append((w["advance"], "advance", None))
        return evs

    def _rate_ready(self, end, now):
        """Token bucket of a bandwidth-limited path (simulated time). When
        empty, one timer is left pending so that the clock can move on."""
        if end.tokens_t is None:
            end.tokens_t = now
            end.tokens = float(end.rate_burst)
        elif now > end.tokens_t:
            end.tokens = min(float(end.rate_burst),
                             end.tokens + end.rate * (now - end.tokens_t))
            end.tokens_t = now
        if end.tokens >= 1.0:
            return True
        if end.rate_wake is None or not end.rate_wake.active():
            need = max(1.0, end.rate_burst / 4.0)

            def wake():
                end.rate_wake = None
            end.rate_wake = self.reactor.callLater(need / end.rate, wake)
        return False

    def _chunk(self, end):
        n = len(end.inflight)
        if n <= 1 or end.link.mode != "stream":
            return 1
        # one read hands a protocol at most 64 KiB (Twisted's bufferSize)
        n = min(n, 65536)
        mode = self.chunk_mode
        if end.link.chunker is not None:
            return max(1, min(n, end.link.chunker(end, n, self.tape)))
        t = self.tape
        if mode == "all":
            return n
        c = t.choose(8, "chunk")
        if mode == "small":
            if c == 0:
                return n          # (0 = boring: everything at once)
            if c < 6:
                return min(n, 1 + t.choose(64, "ck"))
            return 1 + t.choose(n, "ck")
        # mixed
        if c <= 3:
            return n
        if c == 4:
            return 1
        if c == 5:
            return min(n, 1 + t.choose(64, "ck"))
        return 1 + t.choose(n, "ck")

    def step(self):
        """Run one event. Returns False if nothing at all can happen."""
        evs = self._enabled()
        r = self.reactor
        if not evs:
            if r.calls:
                nxt = r.calls[0].getTime()
                if self.horizon is not None and nxt > self.horizon:
                    r.rightNow = max(r.rightNow, self.horizon)
                    return False
                if nxt > r.rightNow:
                    r.rightNow = nxt
                self.ev("timer")
                r.run_due_timer()
                self._post()
                return True
            return False
        if len(evs) == 1:
            idx = 0
        else:
            idx = self.tape.weighted([e[0] for e in evs], "ev")
        _, kind, obj = evs[idx]
        net = self.net
        if kind == "timer":
            self.ev("timer")
            r.run_due_timer()
        elif kind == "advance":
            r.rightNow = r.calls[0].getTime()
            self.ev("advance")
            self.note("advance_with_io_pending")
        elif kind == "conn":
            self.ev("conn", obj.serial)
            net.resolve_attempt(obj)
        elif kind == "made":
            self.ev("made", obj.serial)
            if getattr(obj, "cut_before_made", False):
                obj.made = True
                # connection died before the application ever saw it
                if obj.role == "c":
                    a = obj.link.attempt
                    if not a.done:
                        a.done = True
                        a.connector.connectionFailed(
                            failure.Failure(error.ConnectionRefusedError()))
                obj.alive = False
            else:
                net.make_end(obj)
        elif kind == "flush":
            n = len(obj.sendbuf)
            lim = None
            if obj.link.mode == "stream" and n > 1 and \
                    self.tape.choose(2, "fl"):
                lim = 1 + self.tape.choose(n, "fk")
            k = net.flush_end(obj, lim)
            self.ev("flush", obj.serial, k)
        elif kind == "deliver":
            k = self._chunk(obj)
            if obj.rate is not None and obj.link.mode == "stream":
                k = max(1, min(k, int(obj.tokens)))
                obj.tokens -= k
            self.ev("deliver", obj.serial, k)
            net.deliver(obj, k)
            if self.msg_burst and obj.link.mode == "message":
                # one TCP read may carry several websocket frames: they are
                # all dispatched before the reactor turns to anything else
                n = 0
                while obj.alive and not obj.read_paused and \
                        not obj.read_stopped and not obj.stalled and \
                        len(obj.inflight) and obj.link.up and n < 64 and \
                        self.tape.choose(4, "burst") != 0:
                    n += 1
                    self.ev("deliver+", obj.serial)
                    net.deliver(obj, 1)
                if n:
                    self.note("probe.frames_in_one_read")
        elif kind == "eof":
            self.ev("eof", obj.serial)
            obj.fin_inbound = False
            net.lose_now(obj, failure.Failure(error.ConnectionDone()))
            if obj.link.up:
                obj.link.up = obj.peer.alive
        elif kind == "lost":
            self.ev("lost", obj.serial)
            f = obj.lost_pending
            net.lose_now(obj, f)
        elif kind == "app":
            self.ev("app", obj[0])
            obj[1]()
        elif kind == "fault":
            self.ev("fault", obj[0])
            self.note("fault." + obj[0].split(":")[0])
            obj[1]()
        self._post()
        return True

    def _post(self):
        self.steps += 1
        if self.net.autoflush:
            self.net.autoflush_all()
        if self.after_step is not None:
            self.after_step()

    def run(self, max_steps, until=None, max_time=None):
        """Step until `until()` is true, nothing is enabled, or a cap hits.
        Returns "until" | "idle" | "steps" | "time"."""
        r = self.reactor
        t_end = None if max_time is None else r.rightNow + max_time
        self.horizon = t_end
        try:
            for _ in range(max_steps):
                if until is not None and until():
                    return "until"
                if t_end is not None and r.rightNow >= t_end:
                    return "time"
                if not self.step():
                    if t_end is not None and r.calls:
                        return "time"
                    return "idle"
            if until is not None and until():
                return "until"
            return "steps"
        finally:
            self.horizon = None

    def hexdigest(self):
        return self.digest.hexdigest()
