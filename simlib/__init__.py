"""Deterministic simulation library for magic-wormhole (see /verif/DESIGN.md)."""
