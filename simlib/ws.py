"""Message-framed stand-ins for Autobahn's WebSocket client and server.

Client: replaces wormhole._rendezvous.WSFactory; calls the very same
RendezvousConnector entry points (ws_open / ws_message / ws_close) and offers
sendMessage().  Server: drives the REAL wormhole_mailbox_server command
handlers (server_websocket.WebSocketServer) with only the Autobahn transport
methods overridden.

Wire format on the (message-mode) simulated link: b"H" = open handshake request,
b"A" = handshake accepted, b"M"+payload = one WebSocket text message.
"""
from twisted.internet import protocol
from twisted.python import log, failure


class StubWSClient(protocol.Protocol):
    _RC = None
    opened = False

    def connectionMade(self):
        self.transport.write(b"H")

    def dataReceived(self, msg):
        kind = msg[:1]
        if kind == b"A":
            self.opened = True
            self._RC.ws_open(self)
        elif kind == b"M":
            if not self.opened:
                raise RuntimeError("sim: message before websocket open")
            self._RC.ws_message(msg[1:])
        elif kind == b"C":
            # the server's Close frame: Autobahn answers it and is then in
            # STATE_CLOSING until the peer drops the TCP connection
            self.closing = True
            self.transport.write(b"C")
        else:
            raise RuntimeError("sim: bad ws frame %r" % (msg[:20],))

    closing = False

    def sendMessage(self, payload, isBinary=False):
        assert not isBinary
        if self.closing:
            # autobahn.websocket.protocol.WebSocketProtocol.sendMessage:
            # "if self.state != STATE_OPEN: raise Disconnected(...)"
            from autobahn.exception import Disconnected
            raise Disconnected("Attempt to send on a closed protocol")
        self.transport.write(b"M" + payload)

    def sendClose(self, code=None, reason=None):
        # autobahn: start the closing handshake (state CLOSING: nothing more
        # can be sent); the server answers with its own Close and drops TCP
        if not self.closing:
            self.closing = True
            self.transport.loseConnection()

    def connectionLost(self, reason=None):
        self._RC.ws_close(True, None, reason)


class StubWSFactory(protocol.ClientFactory):
    protocol = StubWSClient
    noisy = False

    def __init__(self, RC, *args, **kwargs):
        self._RC = RC
        self.url = args[0] if args else None

    def setProtocolOptions(self, **kw):
        pass

    def buildProtocol(self, addr):
        p = StubWSClient()
        p.factory = self
        p._RC = self._RC
        return p


# ----------------------------------------------------------------------------
def make_mailbox_server(welcome=None, allow_list=True):
    """A real wormhole_mailbox_server.Server on an in-memory DB."""
    from wormhole_mailbox_server.server import Server
    from wormhole_mailbox_server.database import create_channel_db
    db = create_channel_db(":memory:")
    server = Server(db, allow_list=allow_list, welcome=welcome or {},
                    blur_usage=None, usage_db=None)
    server._log_requests = False
    return server, db


class _FakeRequest:
    def __init__(self, peer):
        self.headers = {}
        self.peer = peer


class ServerSideProtocol(protocol.Protocol):
    """Twisted protocol on the server end of a simulated ws link, wrapping one
    real WebSocketServer command handler object."""

    def __init__(self, mbox):
        self.mbox = mbox
        self.ws = None
        self.commands = []     # parsed commands in the order the server
        self.opened = False    # processed them

    def dataReceived(self, msg):
        kind = msg[:1]
        if kind == b"H":
            self.opened = True
            self.transport.write(b"A")
            ws = self.mbox._make_ws(self)
            self.ws = ws
            peer = self.transport.getPeer()
            ws.onConnect(_FakeRequest("tcp4:%s:%d" % (peer.host, peer.port)))
            ws.onOpen()
        elif kind == b"M":
            if self.closing:
                return      # (a closing websocket ignores further data)
            self.mbox._on_command(self, msg[1:])
            self.ws.onMessage(msg[1:], False)
        elif kind == b"C":
            # the client's answer to our Close frame: drop the connection
            self.transport.loseConnection()
        else:
            raise RuntimeError("sim: bad ws frame from client")

    closing = False

    def send_close_frame(self):
        """Graceful websocket close started by the server (shutdown,
        idle reaping, a proxy)."""
        if not self.closing and self.opened:
            self.closing = True
            self.transport.write(b"C")

    def send_to_client(self, payload):
        if self.closing:
            return
        self.transport.write(b"M" + payload)

    def connectionLost(self, reason=None):
        self.mbox._conns.discard(self)
        if self.ws is not None:
            try:
                self.ws.onClose(True, None, None)
            except Exception:
                log.err(failure.Failure(), "sim: server onClose raised")


class MailboxServer:
    """The real mailbox server listening on the simulated network."""

    def __init__(self, sim, host="10.0.0.1", port=4000, welcome=None):
        from wormhole_mailbox_server import server_websocket
        self.sim = sim
        self.host = host
        self.port = port
        self.server, self.db = make_mailbox_server(welcome)
        self._conns = set()
        self._conn_serial = 0
        self.command_log = []   # (conn_serial, side, msg dict) server order
        self.on_command = None
        mbox = self

        class _WS(server_websocket.WebSocketServer):
            def __init__(self_, owner):
                server_websocket.WebSocketServer.__init__(self_)
                self_._owner = owner

            def sendMessage(self_, payload, isBinary=False):
                self_._owner.send_to_client(payload)

            def __hash__(self_):
                return self_._owner.serial

        self._WS = _WS

        class _Fac:
            _server = self.server
            reactor = sim.reactor
        self._fac = _Fac()

        class _Factory(protocol.Factory):
            noisy = False

            def buildProtocol(self_, addr):
                p = ServerSideProtocol(mbox)
                mbox._conn_serial += 1
                p.serial = mbox._conn_serial
                mbox._conns.add(p)
                return p
        self.url = "ws://%s:%d/v1" % (host, port)
        sim.net.mode_for_port[port] = "message"
        self.listener = sim.reactor.listenTCP(port, _Factory())

    def _make_ws(self, owner):
        ws = self._WS(owner)
        ws.factory = self._fac
        return ws

    def _on_command(self, conn, payload):
        import json
        msg = json.loads(payload.decode("utf-8"))
        side = conn.ws._side if conn.ws is not None else None
        if msg.get("type") == "bind":
            side = msg.get("side")
        self.command_log.append((conn.serial, side, msg))
        if self.on_command:
            self.on_command(conn, side, msg)

    # -- inspection (C08) ---------------------------------------------------
    def claimed_nameplates(self, side):
        rows = self.db.execute(
            "SELECT n.name AS name, s.claimed AS claimed FROM nameplate_sides s"
            " JOIN nameplates n ON n.id = s.nameplates_id WHERE s.side=?",
            (side,)).fetchall()
        return [r["name"] for r in rows if r["claimed"]]

    def opened_mailboxes(self, side):
        rows = self.db.execute(
            "SELECT mailbox_id, opened FROM mailbox_sides WHERE side=?",
            (side,)).fetchall()
        return [r["mailbox_id"] for r in rows if r["opened"]]

    def stored_messages(self):
        return [dict(r) for r in self.db.execute(
            "SELECT side, phase, body, server_rx FROM messages"
            " ORDER BY server_rx ASC").fetchall()]
