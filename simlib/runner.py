"""Batch runner shared by all checks: seeded search over many simulated runs on
all cores, determinism spot-check, minimisation, replay files, evidence.

A check module provides:
    PROP, LEVEL, RULE (str), ASSUMPTIONS (list), COMPONENTS (dict real/stub)
    QUICK_S, THOROUGH_S (wall budgets, seconds)
    run_one(seed, tape, opts) -> dict with keys
        violation: None | {"key": str, "clause": str, "detail": str}
        nontrivial: bool
        digest: str
        stats: {"steps": int, "sim_s": float, "notes": {name: count}, ...}
        sample: small JSON-able description of the case (ops, faults)
    optional: configs(tier) -> list of opts dicts cycled over seeds
    optional: extra_evidence(agg) -> dict merged into coverage
    optional: deterministic sub-checks: sweep(tier) -> iterable of opts that are
              enumerated exhaustively before the seeded search (fault_enumeration)
"""
import argparse
import faulthandler
import json
import multiprocessing
import os
import subprocess
import sys
import time
import traceback
from concurrent.futures import ProcessPoolExecutor, wait, FIRST_COMPLETED

from .tape import Tape, TapeDivergence
from .core import HarnessError

VERIF = os.path.dirname(os.path.dirname(os.path.abspath(__file__)))
OUT = os.path.join(VERIF, "out")
REPLAYS = os.path.join(OUT, "replays")
DEFAULT_SEED = 20260924

_CHECK = None   # module, set in workers via fork inheritance


def _known_findings(prop):
    p = os.path.join(VERIF, "known_findings.json")
    try:
        data = json.load(open(p))
    except FileNotFoundError:
        return []
    return [e for e in data.get("findings", []) if e.get("property") == prop]


def _match_known(known, key):
    for e in known:
        k = e["key"]
        if key == k or (k.endswith("*") and key.startswith(k[:-1])):
            return e
    return None


def run_case(check, seed, opts, replay=None, strict=False, trace=False):
    """Run one simulated execution. Never raises for property violations;
    harness problems come back as {'harness_error': text}."""
    from . import boot
    boot.new_run(seed)
    tape = Tape(seed, replay=replay, strict=strict)
    o = dict(opts or {})
    if trace:
        o["_trace"] = True
    try:
        res = check.run_one(seed, tape, o)
    except TapeDivergence as e:
        return {"harness_error": "tape divergence: %s" % e, "tape": tape}
    except HarnessError as e:
        return {"harness_error": "HarnessError: %s\n%s" %
                (e, traceback.format_exc()), "tape": tape}
    except Exception:
        return {"harness_error": traceback.format_exc(), "tape": tape}
    res["tape"] = tape
    return res


_COV = None


def _cov_start():
    """Reach measurement (tools/coverage.sh): with VERIF_COVERAGE=<dir> every
    worker records which lines/branches of the code under test its runs
    executed. Off by default; it changes no decision of the simulation."""
    global _COV
    d = os.environ.get("VERIF_COVERAGE")
    if not d or _COV is not None:
        return
    import coverage
    from . import boot
    _COV = coverage.Coverage(
        data_file=os.path.join(d, "cov"), data_suffix=str(os.getpid()),
        branch=True, config_file=False,
        include=[os.path.join(boot.REPO, "src", "wormhole", "*")],
        omit=["*/test/*"])
    _COV.start()


def _cov_save():
    if _COV is not None:
        _COV.stop()
        _COV.save()
        _COV.start()


def _worker_chunk(args):
    seeds, opts_list, wall_cap = args
    faulthandler.dump_traceback_later(wall_cap, exit=True)
    _cov_start()
    if os.environ.get("VERIF_DEBUG_SIGUSR1"):
        import signal
        faulthandler.register(signal.SIGUSR1, all_threads=True)
    import gc
    gc.disable()
    check = _CHECK
    out = {"runs": 0, "nontrivial": 0, "digests": [], "steps": 0,
           "sim_s": 0.0, "notes": {}, "violations": [], "harness": [],
           "samples": [], "nt_digests": [], "extra": {}}
    dbg = os.environ.get("VERIF_DEBUG_SEEDS")
    for idx, (seed, opts) in enumerate(zip(seeds, opts_list)):
        if dbg:
            with open("%s.%d" % (dbg, os.getpid()), "a") as f:
                f.write("%d %r\n" % (seed, opts))
        res = run_case(check, seed, opts)
        if dbg:
            _t = time.time()
            _n = gc.collect()
            with open("%s.%d" % (dbg, os.getpid()), "a") as f:
                f.write("   gc %.3fs collected %d objects %d\n" %
                        (time.time() - _t, _n, len(gc.get_objects())))
        else:
            gc.collect()
        if "harness_error" in res:
            out["harness"].append((seed, opts, res["harness_error"]))
            continue
        out["runs"] += 1
        st = res.get("stats", {})
        out["steps"] += st.get("steps", 0)
        out["sim_s"] += st.get("sim_s", 0.0)
        for k, v in st.get("notes", {}).items():
            out["notes"][k] = out["notes"].get(k, 0) + v
        for k, v in st.get("extra", {}).items():
            # extra: name -> set-like list (union) or int (sum)
            if isinstance(v, (list, set, tuple)):
                out["extra"].setdefault(k, set()).update(v)
            else:
                out["extra"][k] = out["extra"].get(k, 0) + v
        out["digests"].append((seed, res["digest"]))
        if res.get("nontrivial"):
            out["nontrivial"] += 1
            out["nt_digests"].append(res["digest"][:16])
        if len(out["samples"]) < 2 and res.get("sample") is not None:
            out["samples"].append(res["sample"])
        v = res.get("violation")
        if v:
            out["violations"].append(
                (seed, opts, v, res["tape"].decisions, res["digest"],
                 [[sd, op] for sd, op in zip(seeds[:idx], opts_list[:idx])]))
    faulthandler.cancel_dump_traceback_later()
    _cov_save()
    out["extra"] = {k: (sorted(v) if isinstance(v, set) else v)
                    for k, v in out["extra"].items()}
    return out


# -----------------------------------------------------------------------------
def minimise(check, seed, opts, decisions, key, budget_s=60.0):
    """ddmin-style shrinking of the decision list under tolerant replay."""
    t0 = time.time()
    best = [list(d) for d in decisions]
    trials = 0

    def fails(cand):
        nonlocal trials
        trials += 1
        res = run_case(check, seed, opts, replay=cand, strict=False)
        v = res.get("violation")
        if v and v["key"] == key:
            return res["tape"].decisions
        return None

    def timeup():
        return time.time() - t0 > budget_s

    # 1. shortest failing prefix (the rest reads as zeros)
    lo, hi = 0, len(best)
    while lo < hi and not timeup():
        mid = (lo + hi) // 2
        got = fails(best[:mid])
        if got is not None:
            hi = mid
            best = best[:mid]
        else:
            lo = mid + 1
    # 2. zero / delete chunks
    for mode in ("delete", "zero", "delete", "zero"):
        n = max(1, len(best) // 2)
        while n >= 1 and not timeup():
            i = 0
            changed = False
            while i < len(best) and not timeup():
                if mode == "delete":
                    cand = best[:i] + best[i + n:]
                else:
                    if all(d[1] == 0 for d in best[i:i + n]):
                        i += n
                        continue
                    cand = best[:i] + [[d[0], 0] for d in best[i:i + n]] + \
                        best[i + n:]
                got = fails(cand)
                if got is not None:
                    best = cand
                    changed = True
                    if mode == "zero":
                        i += n
                else:
                    i += n
            if not changed or n == 1:
                n //= 2
            else:
                n = max(1, n // 2)
    # 3. canonical form: what the code actually consumed
    got = fails(best)
    if got is not None:
        best = got
        # strip trailing zeros (exhausted tape reads as zero anyway) -- but
        # strict replay needs every decision, so keep them.
    return best, trials


def write_replay(prop, seed, opts, decisions, violation, digest, trace=None,
                 name=None, history=None):
    os.makedirs(REPLAYS, exist_ok=True)
    path = os.path.join(REPLAYS, name or "%s-%d.json" % (prop, seed))
    data = {"property": prop, "seed": seed, "opts": opts,
            "decisions": decisions, "violation": violation,
            "digest": digest, "trace": trace}
    if history:
        # earlier cases that ran in the same process (each a pure function of
        # its seed and opts): the violation needs state they leave behind
        data["history"] = history
    with open(path, "w") as f:
        json.dump(data, f, indent=0)
    return path


def do_replay(check, path, quiet=False):
    data = json.load(open(path))
    for sd, op in data.get("history") or []:
        run_case(check, sd, op)
    res = run_case(check, data["seed"], data.get("opts"),
                   replay=data["decisions"], strict=True, trace=True)
    if "harness_error" in res:
        print("HARNESS-ERROR during replay: %s" % res["harness_error"])
        return 2
    v = res.get("violation")
    if not quiet and res.get("trace"):
        for line in res["trace"]:
            print("  " + line)
        print("  sample: " + json.dumps(res.get("sample"), default=str))
    if v:
        same = (data.get("violation") or {}).get("key") == v["key"]
        dig = res["digest"] == data.get("digest")
        print("replay: violation %s reproduced=%s digest_match=%s" %
              (v["key"], same, dig))
        print("  clause: %s" % v["clause"])
        print("  detail: %s" % v["detail"])
        print("VIOLATION property=%s replay=%s" % (check.PROP, path))
        return 1
    print("replay: no violation (recorded: %s)" %
          ((data.get("violation") or {}).get("key")))
    return 0


# -----------------------------------------------------------------------------
def _validate_evidence(ev):
    for k in ("property_id", "tier", "seed", "level", "coverage", "wall_s"):
        assert k in ev, k
    assert ev["tier"] in ("quick", "thorough")
    assert isinstance(ev["seed"], int)
    c = ev["coverage"]
    if ev["level"] in ("exploration", "fault_enumeration"):
        assert isinstance(c["evaluations"], int) and c["evaluations"] >= 1
        assert isinstance(c["distinct_nontrivial"], int) and \
            c["distinct_nontrivial"] >= 2, \
            "distinct_nontrivial=%r" % c["distinct_nontrivial"]
        assert isinstance(c["rule"], str)
        assert isinstance(c["samples"], list) and len(c["samples"]) >= 1


def main(check, argv=None):
    global _CHECK
    _CHECK = check
    ap = argparse.ArgumentParser(prog="check " + check.PROP)
    ap.add_argument("--tier", default=os.environ.get("VERIF_TIER", "quick"),
                    choices=["quick", "thorough"])
    ap.add_argument("--seed", type=int, default=None)
    ap.add_argument("--replay", default=None)
    ap.add_argument("--budget", type=float, default=None)
    ap.add_argument("--workers", type=int, default=None)
    ap.add_argument("--runs", type=int, default=None,
                    help="stop after this many runs (default: budget only)")
    ap.add_argument("--one", type=int, default=None,
                    help="run a single seed with trace output")
    ap.add_argument("--opts", default=None, help="JSON opts for --one")
    ap.add_argument("--no-evidence", action="store_true")
    ap.add_argument("--no-minimise", action="store_true")
    ap.add_argument("--quiet", action="store_true")
    args = ap.parse_args(argv)
    prop = check.PROP

    if args.replay:
        return do_replay(check, args.replay, quiet=args.quiet)

    tier = args.tier
    seed0 = args.seed
    if seed0 is None:
        seed0 = int(os.environ.get("VERIF_SEED", DEFAULT_SEED))
    cfgs = check.configs(tier) if hasattr(check, "configs") else [{}]
    if tier == "thorough":
        # checks scale their workloads / fault budgets on this flag
        cfgs = [dict(c, _tier="thorough") for c in cfgs]

    if args.one is not None:
        opts = json.loads(args.opts) if args.opts else \
            cfgs[args.one % len(cfgs)]
        res = run_case(check, args.one, opts, trace=True)
        if "harness_error" in res:
            print("HARNESS-ERROR:", res["harness_error"])
            return 2
        for line in res.get("trace") or []:
            print("  " + line)
        print(json.dumps({k: v for k, v in res.items()
                          if k not in ("tape", "trace")}, default=str,
                         indent=1))
        return 1 if res.get("violation") else 0

    budget = args.budget
    if budget is None:
        env = os.environ.get("VERIF_BUDGET_S")
        budget = float(env) if env else float(
            check.QUICK_S if tier == "quick" else check.THOROUGH_S)
    workers = args.workers or int(os.environ.get("VERIF_WORKERS", "0")) or \
        min(16, os.cpu_count() or 1)
    known = _known_findings(prop)
    t0 = time.time()
    wall_cap = int(os.environ.get("VERIF_WALL_CAP", max(120, budget * 3)))

    agg = {"runs": 0, "nontrivial": 0, "steps": 0, "sim_s": 0.0, "notes": {},
           "samples": [], "extra": {}}
    nt_digests = set()
    digests = {}
    violations = []
    known_hits = {}
    harness = []

    # enumerated part (fault_enumeration checks) -- cases come first
    sweep_cases = list(check.sweep(tier)) if hasattr(check, "sweep") else []
    if tier == "thorough":
        sweep_cases = [dict(c, _tier="thorough") for c in sweep_cases]
    n_sweep = len(sweep_cases)

    chunk = getattr(check, "RUNNER_CHUNK", 20)
    max_runs = args.runs
    ctx = multiprocessing.get_context("fork")
    next_index = 0
    det_seeds = []       # seeds to be re-run for the determinism spot check
    pending = set()
    stop = False

    def make_task():
        nonlocal next_index
        seeds, opts_list = [], []
        for _ in range(chunk):
            i = next_index
            if max_runs is not None and i >= max_runs + n_sweep:
                break
            if i < n_sweep:
                o = sweep_cases[i]
                seeds.append(seed0 + i)
            else:
                j = i - n_sweep
                o = cfgs[j % len(cfgs)]
                seeds.append(seed0 + n_sweep + j)
            opts_list.append(o)
            next_index += 1
        if not seeds:
            return None
        return (seeds, opts_list, wall_cap)

    def absorb(out):
        agg["runs"] += out["runs"]
        agg["nontrivial"] += out["nontrivial"]
        agg["steps"] += out["steps"]
        agg["sim_s"] += out["sim_s"]
        for k, v in out["notes"].items():
            agg["notes"][k] = agg["notes"].get(k, 0) + v
        for k, v in out["extra"].items():
            if isinstance(v, list):
                agg["extra"].setdefault(k, set()).update(
                    tuple(x) if isinstance(x, list) else x for x in v)
            else:
                agg["extra"][k] = agg["extra"].get(k, 0) + v
        nt_digests.update(out["nt_digests"])
        if len(agg["samples"]) < 3:
            agg["samples"].extend(out["samples"][:3 - len(agg["samples"])])
        for seed, dg in out["digests"]:
            if seed in digests and digests[seed] != dg:
                harness.append((seed, None,
                                "nondeterminism: seed %d gave digests %s and %s"
                                % (seed, digests[seed], dg)))
            digests.setdefault(seed, dg)
        for v in out["violations"]:
            e = _match_known(known, v[2]["key"])
            if e is not None:
                known_hits.setdefault(e["key"], [e, 0, v])
                known_hits[e["key"]][1] += 1
            else:
                violations.append(v)
        harness.extend(out["harness"])

    try:
        with ProcessPoolExecutor(max_workers=workers, mp_context=ctx) as ex:
            first_tasks = []
            while not stop:
                # keep the pool fed
                while len(pending) < workers * 2 and not stop:
                    must_finish_sweep = next_index < n_sweep
                    if time.time() - t0 > budget and not must_finish_sweep:
                        stop = True
                        if os.environ.get("VERIF_DEBUG_SEEDS"):
                            sys.stderr.write("DEBUG stop at %.1fs next_index=%d"
                                             " pending=%d\n" %
                                             (time.time() - t0, next_index,
                                              len(pending)))
                        break
                    task = make_task()
                    if task is None:
                        stop = True
                        break
                    if len(first_tasks) < 1 and next_index > n_sweep:
                        first_tasks.append(task)
                    pending.add(ex.submit(_worker_chunk, task))
                if not pending:
                    break
                done, pending = wait(pending, timeout=wall_cap,
                                     return_when=FIRST_COMPLETED)
                if not done:
                    harness.append((None, None, "worker timeout"))
                    break
                for fut in done:
                    absorb(fut.result())
                if violations or harness:
                    stop = True
            # determinism spot check: re-run the first random chunk in another
            # worker process and compare digests
            if not violations and not harness and first_tasks:
                fut = ex.submit(_worker_chunk, first_tasks[0])
                out = fut.result(timeout=wall_cap)
                for seed, dg in out["digests"]:
                    if seed in digests and digests[seed] != dg:
                        harness.append(
                            (seed, None, "nondeterminism: seed %d digests %s vs"
                             " %s" % (seed, digests.get(seed), dg)))
            for fut in pending:
                fut.cancel()
            for fut in pending:
                try:
                    absorb(fut.result(timeout=wall_cap))
                except Exception:
                    pass
    except Exception:
        print("HARNESS-ERROR: runner failed\n" + traceback.format_exc())
        return 2

    wall = time.time() - t0
    # scratch directories of killed workers (world D) must not pile up
    import glob
    import shutil
    for d in glob.glob(os.path.join(__import__("tempfile").gettempdir(),
                                    "mwsim-%d-*" % os.getpid())):
        shutil.rmtree(d, ignore_errors=True)
    if harness:
        for seed, opts, text in harness[:5]:
            print("HARNESS-ERROR seed=%s opts=%s\n%s" % (seed, opts, text))
        return 2

    rc = 0
    vio_paths = []
    if violations:
        seed, opts, v, decisions, dg, history = violations[0]
        if not args.no_minimise:
            mini, trials = minimise(check, seed, opts, decisions, v["key"],
                                    budget_s=45.0 if tier == "quick" else 180.0)
        else:
            mini, trials = decisions, 0
        res = run_case(check, seed, opts, replay=mini, strict=False,
                       trace=True)
        v2 = res.get("violation") or v
        path = write_replay(prop, seed, opts, res["tape"].decisions
                            if "tape" in res else mini, v2,
                            res.get("digest", dg), res.get("trace"))
        # fresh-interpreter confirmation
        cp = subprocess.run([sys.executable, sys.argv[0], "--replay", path,
                             "--quiet"], capture_output=True, text=True,
                            timeout=600)
        confirmed = ("VIOLATION property=%s" % prop) in cp.stdout and \
            "digest_match=True" in cp.stdout
        print("violation found by seed %d after %d runs; minimised %d -> %d "
              "decisions in %d trials; fresh-interpreter replay %s" %
              (seed, agg["runs"], len(decisions), len(mini), trials,
               "reproduced" if confirmed else "DID NOT REPRODUCE"))
        print("  key:    %s" % v2["key"])
        print("  clause: %s" % v2["clause"])
        print("  detail: %s" % v2["detail"])
        if not confirmed and history:
            # does it need what earlier cases left behind in the process
            # (state shared between sessions)? replay the preceding cases of
            # the worker's chunk first, then shrink that history
            def try_hist(h, decs):
                pth = write_replay(prop, seed, opts, decs, v, dg, None,
                                   name="%s-%d-h.json" % (prop, seed),
                                   history=h)
                c2 = subprocess.run([sys.executable, sys.argv[0], "--replay",
                                     pth, "--quiet"], capture_output=True,
                                    text=True, timeout=900)
                return ("VIOLATION property=%s" % prop) in c2.stdout and \
                    ("violation %s " % v["key"]) in c2.stdout, pth
            ok, hpath = try_hist(history, decisions)
            if ok:
                h = list(history)
                for n in (1, 2, 4, 8):
                    if n < len(h):
                        ok2, _ = try_hist(h[-n:], decisions)
                        if ok2:
                            h = h[-n:]
                            break
                ok, hpath = try_hist(h, decisions)
                print("  the violation needs state left behind by %d earlier "
                      "case(s) run in the same process (cross-session state); "
                      "the replay file lists them under 'history'" % len(h))
                confirmed = ok
                path = hpath
        if not confirmed:
            print("HARNESS-ERROR: minimised replay did not reproduce in a "
                  "fresh interpreter:\n%s\n%s" % (cp.stdout[-2000:],
                                                  cp.stderr[-2000:]))
            return 2
        print("VIOLATION property=%s replay=%s" % (prop, path))
        vio_paths.append(path)
        rc = 1

    for key, (e, n, v) in sorted(known_hits.items()):
        print("KNOWN-FINDING: property=%s %s (hit %d times this run; key=%s)"
              % (prop, e["what"], n, key))

    if not args.no_evidence:
        notes = agg["notes"]
        faults = {k[6:]: v for k, v in notes.items() if k.startswith("fault.")}
        probes = {k: v for k, v in notes.items()
                  if not k.startswith("fault.")}
        cov = {
            "evaluations": agg["runs"],
            "distinct_nontrivial": len(nt_digests),
            "rule": check.RULE,
            "samples": agg["samples"][:3],
            "exhaustive": False,
            "enumerated_cases": n_sweep,
            "nontrivial_runs": agg["nontrivial"],
            "distinct_event_digests": len(set(digests.values())),
            "runs_per_hour": int(agg["runs"] / wall * 3600) if wall else 0,
            "simulated_seconds": round(agg["sim_s"], 1),
            "events_executed": agg["steps"],
            "faults_fired": faults,
            "probes": probes,
            "components": getattr(check, "COMPONENTS", {}),
            "workers": workers,
            "determinism_spot_check": "first chunk re-run in a second worker "
                                      "process, digests equal",
            "known_findings_hit": {k: n for k, (e, n, v) in
                                   known_hits.items()},
        }
        for k, v in agg["extra"].items():
            cov[k] = len(v) if isinstance(v, set) else v
        if hasattr(check, "extra_evidence"):
            cov.update(check.extra_evidence(agg))
        ev = {"property_id": prop, "tier": tier, "seed": seed0,
              "level": check.LEVEL, "coverage": cov,
              "assumptions": getattr(check, "ASSUMPTIONS", []),
              "wall_s": round(wall, 2), "violations": len(violations)}
        try:
            _validate_evidence(ev)
        except AssertionError as e:
            print("HARNESS-ERROR: evidence would not validate: %r" % (e,))
            return 2
        os.makedirs(os.path.join(VERIF, "evidence"), exist_ok=True)
        with open(os.path.join(VERIF, "evidence", prop + ".json"), "w") as f:
            json.dump(ev, f, indent=1, sort_keys=True, default=str)
    if not args.quiet:
        print("%s %s: %d runs (%d enumerated), %d non-trivial (%d distinct), "
              "%.1fs wall, %d runs/h, violations=%d known=%d" %
              (prop, tier, agg["runs"], n_sweep, agg["nontrivial"],
               len(nt_digests), wall,
               int(agg["runs"] / wall * 3600) if wall else 0,
               len(violations), sum(x[1] for x in known_hits.values())))
    return rc
