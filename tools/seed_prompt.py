#!/venv/bin/python
"""tools/seed_prompt.py <Cxx> <worktree> -- print the brief handed to a fresh
sub-agent for one round of independently produced breaking changes: the
property's text, the scratch worktree to work in, and the one-line ideas of the
earlier rounds (so that it picks another mechanism). Nothing from /verif's
machinery is mentioned."""
import glob
import json
import os
import sys

HERE = os.path.dirname(os.path.dirname(os.path.abspath(__file__)))
pid, wt = sys.argv[1], sys.argv[2]
prop = [json.loads(l) for l in open(os.path.join(HERE, "properties.jsonl"))
        if json.loads(l)["id"] == pid][0]
ideas = []
for m in sorted(glob.glob(os.path.join(HERE, "seeded", pid + "*", "meta.json"))):
    ideas.append(json.load(open(m)).get("summary", "").strip())
print("""You are testing how well a verification effort detects regressions in the Python project
magic-wormhole. Your job: write ONE realistic change to the project's source that BREAKS the
semantic property below, while the project still imports and its whole existing test suite still
passes, plus a small demonstration program that fails with your change and passes without it.

Work ONLY inside your own scratch git worktree: %(wt)s  (a checkout of the project; source under
src/wormhole). Do not read or touch /repo or /verif or any other /tmp/seed* directory. There is no
network. Python: /venv/bin/python (Twisted, Automat, pytest installed; the `noiseprotocol` package is
NOT installed, so do not rely on real Dilation encryption in the demonstration -- drive the Dilation
classes directly or with mocks as the project's own tests under src/wormhole/test/dilate do).

THE PROPERTY (id %(id)s): %(title)s

Statement: %(statement)s

Quantified over: %(quant)s

Why the existing tests cannot settle it: %(why)s

Code anchors: %(anchors)s

WHAT KIND OF CHANGE IS WANTED
* A change a maintainer could plausibly make (refactoring, "optimisation", "simplification", a
  tidy-up of a state machine, an added cache/limit/guard, a changed default) -- not sabotage that
  ordinary use would expose at once.
* It must need something SPECIFIC to manifest: a particular interleaving of events, a fault
  (connection loss, reordering, duplicate, stall, error reply) at a particular point, a multi-step
  sequence of operations, elapsed time, re-entrancy (the application calling back into the library
  from a callback), scale (many items / large sizes), an unusual but legal input, or two cooperating
  sites that each look fine alone. A plain happy-path session must still work.
* Prefer a mechanism, file or clause of the property that is DIFFERENT from these ideas, which were
  already used (do not repeat them, and do not produce a small variation of one):
%(ideas)s

REQUIREMENTS (you must verify each one yourself and report the commands and their output tails)
1. `cd %(wt)s && PYTHONPATH=%(wt)s/src /venv/bin/python -m pytest -q -p no:cacheprovider --timeout=900 src/wormhole`
   passes completely WITH your change (expect about 438 passed, about 31 skipped, 0 failed).
2. A demonstration `%(wt)s/demo_%(id)s.py` (plain script: exit code 0 = property held, non-zero =
   property broken; or a pytest file named demo_%(id)s_test.py) that FAILS with your change and
   PASSES after `git checkout -- src` (then re-apply your change: keep a copy of your diff). Run it
   with PYTHONPATH=%(wt)s/src. It must exercise the real project code (real classes; mocks only at
   the edges), finish in under 2 minutes, use no network (in-memory transports / Twisted test
   reactors / localhost-free).
3. Leave the change applied UNCOMMITTED in the worktree (so `git diff -- src` shows it); touch only
   files under src/wormhole that are not tests. Keep it small (ideally < 30 changed lines).
4. Write `%(wt)s/notes.md`: what the change is, which clause of the property it breaks, exactly what
   it needs in order to manifest (the interleaving / fault / sequence / input), and why the existing
   tests do not notice.

Finish with a short report: the diff, what it needs to manifest, and the outputs for requirements 1
and 2 (with and without the change).""" % {
    "wt": wt, "id": pid, "title": prop["title"], "statement": prop["statement"],
    "quant": json.dumps(prop["quantifier"]), "why": prop["why_tests_cant"],
    "anchors": json.dumps(prop["anchors"]),
    "ideas": "\n".join("  - " + i for i in ideas) or "  (none yet)"})
