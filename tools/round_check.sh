#!/bin/sh
# tools/round_check.sh <letter> <Cxx>... -- run each property's check against seeded/<Cxx>-<letter>
cd "$(dirname "$0")/.." || exit 2
L="$1"; shift
mkdir -p out/intake
for c in "$@"; do
  id="$c-$L"
  ./tools/mut.sh "$(pwd)/seeded/$id/patch.diff" "$c" --budget "${BUDGET:-40}" > "out/intake/$id.check.txt" 2>&1; RC=$?
  K=$(grep -m1 '^  key:' "out/intake/$id.check.txt")
  echo "$id | check exit=$RC $K | $(tail -1 out/intake/$id.check.txt)"
done
