#!/bin/sh
# tools/coverage.sh [budget-seconds] [checks...] -- reach measurement: run the named checks (default:
# all) with line/branch recording of /repo/src/wormhole switched on in every worker, combine, and
# print per file the lines that NO check ever executed (a mutation there cannot be noticed).
# Report: out/coverage/report.txt (+ out/coverage/missing.json). Not a registered command.
cd "$(dirname "$0")/.." || exit 2
B="${1:-40}"; [ $# -gt 0 ] && shift
[ $# -eq 0 ] && set -- C01 C02 C03 C04 C05 C06 C07 C08 C09 C10 C11 C12 C13 C14 C15 C16 C17 C18 C19 C20
D="$(pwd)/out/coverage"; rm -rf "$D"; mkdir -p "$D"
for c in "$@"; do
  mkdir -p "$D/$c"
  VERIF_COVERAGE="$D/$c" COVERAGE_CORE=sysmon ./check "$c" --no-evidence --budget "$B" 2>&1 | tail -1
done
# lines that run when the modules are imported (class bodies, decorators, tables) are executed
# before the workers are forked: record them once in a fresh interpreter
mkdir -p "$D/import"
PYTHONHASHSEED=0 PYTHONPATH="$(pwd)" COVERAGE_CORE=sysmon /venv/bin/python - "$D" <<'PY'
import coverage, os, sys
from simlib import boot  # noqa  (seams first; imports nothing of wormhole yet... or does)
cov = coverage.Coverage(data_file=os.path.join(sys.argv[1], "import", "cov"), data_suffix="import",
                        branch=True, config_file=False,
                        include=[os.path.join(boot.REPO, "src", "wormhole", "*")], omit=["*/test/*"])
for m in [m for m in sys.modules if m == "wormhole" or m.startswith("wormhole.")]:
    del sys.modules[m]
cov.start()
import importlib, pkgutil
import wormhole
for m in pkgutil.walk_packages(wormhole.__path__, "wormhole."):
    if ".test" in m.name:
        continue
    try:
        importlib.import_module(m.name)
    except Exception as e:
        print("  (import of %s skipped: %s)" % (m.name, e))
cov.stop(); cov.save()
PY
cd "$D" && /venv/bin/python - "$@" <<'PY'
import coverage, glob, json, os, sys
allf = glob.glob(os.path.join("import", "cov.*"))
per = {}
for c in sys.argv[1:]:
    files = glob.glob(os.path.join(c, "cov.*"))
    if not files:
        continue
    cov = coverage.Coverage(data_file=os.path.join(c, "combined"), config_file=False)
    cov.combine(files, keep=True); cov.save()
    allf += files
cov = coverage.Coverage(data_file="all", config_file=False, branch=True)
cov.combine(allf, keep=True); cov.save()
with open("report.txt", "w") as f:
    cov.report(file=f, show_missing=True, skip_covered=False, ignore_errors=True)
missing = {}
data = cov.get_data()
for fn in sorted(data.measured_files()):
    try:
        _, stm, exc, miss, _ = cov.analysis2(fn)
    except Exception:
        continue
    missing[fn.split("/src/")[-1]] = {"statements": len(stm), "missing": miss}
json.dump(missing, open("missing.json", "w"), indent=0)
print(open("report.txt").read()[-3000:])
PY
