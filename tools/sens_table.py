#!/venv/bin/python
"""Put the result of the last tools/sensitivity.py run (out/sensitivity.json)
into DESIGN.md between the SENS markers."""
import collections
import json
import os
import re

HERE = os.path.dirname(os.path.dirname(os.path.abspath(__file__)))
res = json.load(open(os.path.join(HERE, "out", "sensitivity.json")))
by = collections.OrderedDict()
for r in res:
    by.setdefault(r["property"], []).append(r)
lines = ["| check | broken trees run | caught | keys that fired (mutant -> key) |",
         "|---|---|---|---|"]
tot = caught = 0
for prop, rs in by.items():
    c = sum(1 for r in rs if r["caught"])
    tot += len(rs)
    caught += c
    items = []
    for r in rs:
        name = re.sub(r"^C\d\d-", "", r["mutant"]).replace(".py", "") \
            .replace(".patch", "")
        items.append("%s -> %s" % (name, (r["key"] or "MISSED").replace(
            prop + ".", "")))
    lines.append("| %s | %d | %d | %s |" % (prop, len(rs), c, "; ".join(items)))
lines.append("")
renote = [r["mutant"] for r in res if r.get("note", "").startswith("re-run")]
lines.append("Total: %d of %d broken trees caught. Last full run: three parallel shards "
             "(tools/sensitivity.py --shard i/3 --workers 4 --budget 50, i.e. a third of the "
             "quick tier's effort per tree)%s. Not caught: seeded/C03-f (unreachable since fix "
             "170d1f8), seeded/C06-b and seeded/C07-h (not manifest under TCP semantics), "
             "seeded/C18-m (needs a non-conformant server), seeded/C13-m (its workload is switched off by default, open question Q1 in section 9)." %
             (caught, tot, ("; %d trees that this reduced effort missed were re-run with the "
                            "quick tier's 16 workers and caught (%s)" %
                            (len(renote), ", ".join(renote))) if renote else ""))
p = os.path.join(HERE, "DESIGN.md")
s = open(p).read()
a = s.index("<!-- SENS:BEGIN -->") + len("<!-- SENS:BEGIN -->")
b = s.index("<!-- SENS:END -->")
s = s[:a] + "\n" + "\n".join(lines) + "\n" + s[b:]
open(p, "w").write(s)
print("caught %d of %d" % (caught, tot))
