#!/venv/bin/python
"""Run every sensitivity mutant in /verif/mutants (and every seeded change in
/verif/seeded) against its check and print/record which are caught.

  tools/sensitivity.py [--budget S] [--only Cxx [--merge]]

Each mutation is applied to a scratch copy of /repo/src under a fresh mkdtemp()
outside /repo and /verif (tools/mut.sh), the check runs against it
(VERIF_REPO), the copy is removed. Result table: out/sensitivity.json.
"""
import glob
import json
import os
import re
import subprocess
import sys
import time

HERE = os.path.dirname(os.path.dirname(os.path.abspath(__file__)))


def main():
    budget = "40"
    only = None
    args = sys.argv[1:]
    if "--budget" in args:
        budget = args[args.index("--budget") + 1]
    if "--only" in args:
        only = args[args.index("--only") + 1]
    shard = None
    if "--shard" in args:      # i/n: every n-th item, for parallel runs
        i_, n_ = args[args.index("--shard") + 1].split("/")
        shard = (int(i_), int(n_))
    workers = args[args.index("--workers") + 1] if "--workers" in args \
        else None
    items = []
    for p in sorted(glob.glob(os.path.join(HERE, "mutants", "C*"))):
        items.append((os.path.basename(p)[:3], p, os.path.basename(p)))
    for p in sorted(glob.glob(os.path.join(HERE, "seeded", "*", "patch.diff"))):
        meta = json.load(open(os.path.join(os.path.dirname(p), "meta.json")))
        items.append((meta["property"], p, "seeded/" +
                      os.path.basename(os.path.dirname(p))))
    results = []
    for idx_, (prop, path, name) in enumerate(items):
        if only and prop != only:
            continue
        if shard and idx_ % shard[1] != shard[0]:
            continue
        t0 = time.time()
        cp = subprocess.run([os.path.join(HERE, "tools", "mut.sh"), path, prop,
                             "--budget", budget] +
                            (["--workers", workers] if workers else []),
                            capture_output=True, text=True, timeout=1800)
        out = cp.stdout + cp.stderr
        m = re.search(r"^  key:\s+(\S+)", out, re.M)
        runs = re.search(r": (\d+) runs", out)
        caught = "VIOLATION property=%s" % prop in out
        res = {"mutant": name, "property": prop, "caught": caught,
               "key": m.group(1) if m else None,
               "runs": int(runs.group(1)) if runs else None,
               "exit": cp.returncode, "wall_s": round(time.time() - t0, 1)}
        if cp.returncode not in (0, 1):
            res["error"] = out[-400:]
        results.append(res)
        print("%-60s %-7s %s (%s runs, %.0fs)" % (
            name, "CAUGHT" if caught else ("MISSED" if cp.returncode == 0
                                           else "ERROR"),
            res["key"] or "", res["runs"], res["wall_s"]), flush=True)
    os.makedirs(os.path.join(HERE, "out"), exist_ok=True)
    outp = os.path.join(HERE, "out", "sensitivity.json" if not shard else
                        "sensitivity.%d-of-%d.json" % shard)
    if only and "--merge" in args and os.path.exists(outp):
        # re-run of one property: replace its rows in the last full table
        old = [r for r in json.load(open(outp)) if r["property"] != only]
        results = sorted(old + results, key=lambda r: (r["property"],
                                                       r["mutant"]))
    json.dump(results, open(outp, "w"), indent=1)
    n = len(results)
    c = sum(1 for r in results if r["caught"])
    print("caught %d of %d" % (c, n))


if __name__ == "__main__":
    main()
