#!/bin/sh
# Nothing to compile. Verify the interpreter, the seams and simulator
# determinism (short form); validate MANIFEST.json when a validator exists.
cd "$(dirname "$0")/.." || exit 2
mkdir -p out/replays evidence
PYTHONHASHSEED=0 PYTHONPATH="$(pwd)" timeout 600 /venv/bin/python -m simlib.selftest --short || exit 1
if command -v python3-vt >/dev/null 2>&1; then
  python3-vt - <<'PY' || exit 1
import json, jsonschema
jsonschema.validate(json.load(open("MANIFEST.json")), json.load(open("/root/.vp/MANIFEST.schema.json"))) if __import__("os").path.exists("/root/.vp/MANIFEST.schema.json") else None
print("MANIFEST.json valid")
PY
fi
exit 0
