#!/bin/sh
# tools/round_intake.sh <round> <letter> <Cxx>... -- for each property: confirm the change in
# /tmp/seed<round>_<Cxx> (tools/seed_intake.sh), copy it to seeded/<Cxx>-<letter>, then run the
# property's check against it (tools/mut.sh, quick budget). Logs: out/intake/<Cxx>-<letter>.{intake,check}.txt
cd "$(dirname "$0")/.." || exit 2
R="$1"; L="$2"; shift 2
mkdir -p out/intake
for c in "$@"; do
  id="$c-$L"
  ./tools/seed_intake.sh "$c" "/tmp/seed${R}_$c" "$id" > "out/intake/$id.intake.txt" 2>&1
  V=$(grep '== verdict' "out/intake/$id.intake.txt"); T=$(grep -E 'passed|failed' "out/intake/$id.intake.txt" | head -1)
  ./tools/mut.sh "$(pwd)/seeded/$id/patch.diff" "$c" --budget "${BUDGET:-40}" > "out/intake/$id.check.txt" 2>&1; RC=$?
  K=$(grep -m1 '^  key:' "out/intake/$id.check.txt")
  echo "$id | $V | tests: $T | check exit=$RC $K | $(tail -1 out/intake/$id.check.txt)"
done
