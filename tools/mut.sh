#!/bin/sh
# tools/mut.sh <patch-or-sed-script.py> <Cxx> [check args...]
# Applies a mutation to a scratch copy of /repo (outside /repo and /verif), runs
# the check against it (VERIF_REPO), removes the copy. Exit status = check's.
PATCH="$1"; CHECK="$2"; shift 2
D=$(mktemp -d /tmp/mwmut.XXXXXX)
mkdir -p "$D/repo"
cp -r /repo/src "$D/repo/src"
case "$PATCH" in
  *.py) (cd "$D/repo" && /venv/bin/python "$PATCH") || { echo "mutation script failed"; rm -rf "$D"; exit 3; } ;;
  *) (cd "$D/repo" && patch -p1 -s < "$PATCH") || { echo "patch failed"; rm -rf "$D"; exit 3; } ;;
esac
VERIF_REPO="$D/repo" "$(cd "$(dirname "$0")/.." && pwd)/check" "$CHECK" --no-evidence "$@"
RC=$?
rm -rf "$D"
exit $RC
