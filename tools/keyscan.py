#!/venv/bin/python
"""tools/keyscan.py Cxx N [tier]: run N seeds in a pool and list distinct violation keys."""
import sys, os, collections
sys.path.insert(0, os.path.dirname(os.path.dirname(os.path.abspath(__file__))))
from simlib import boot
from simlib import runner
import importlib, multiprocessing
from concurrent.futures import ProcessPoolExecutor
mod = importlib.import_module('checks.' + sys.argv[1].lower())
N = int(sys.argv[2])
cfgs = mod.configs('quick') if hasattr(mod, 'configs') else [{}]
def work(rng):
    out = []
    for seed in rng:
        res = runner.run_case(mod, seed, cfgs[seed % len(cfgs)])
        if 'harness_error' in res:
            out.append((seed, 'HARNESS', res['harness_error'][-400:]))
        elif res.get('violation'):
            out.append((seed, res['violation']['key'], res['violation']['detail'][:300]))
    return out
if __name__ == '__main__':
    base = int(sys.argv[3]) if len(sys.argv) > 3 else 0
    chunks = [range(base + i, base + N, 16) for i in range(16)]
    with ProcessPoolExecutor(16, mp_context=multiprocessing.get_context('fork')) as ex:
        res = [x for part in ex.map(work, chunks) for x in part]
    keys = collections.OrderedDict()
    for seed, key, detail in sorted(res):
        keys.setdefault(key, []).append((seed, detail))
    for k, v in keys.items():
        print("%5d  %s   e.g. seed %d: %s" % (len(v), k, v[0][0], v[0][1]))
    print("total violating runs:", len(res), "of", N)
