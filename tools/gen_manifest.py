#!/venv/bin/python
"""Regenerate /verif/MANIFEST.json from the check modules' metadata."""
import importlib
import json
import os
import sys

HERE = os.path.dirname(os.path.dirname(os.path.abspath(__file__)))
sys.path.insert(0, HERE)
os.environ.setdefault("PYTHONHASHSEED", "0")
from simlib import boot  # noqa

props = [json.loads(l) for l in open(os.path.join(HERE, "properties.jsonl"))]
NA = json.load(open(os.path.join(HERE, "tools", "not_applicable.json")))
checks = []
claimed = set()
for p in props:
    pid = p["id"]
    modname = "checks." + pid.lower()
    path = os.path.join(HERE, "checks", pid.lower() + ".py")
    if not os.path.exists(path) or pid in NA:
        continue
    m = importlib.import_module(modname)
    claimed.add(pid)
    checks.append({
        "property_id": pid,
        "quick_cmd": "./check %s --tier quick" % pid,
        "thorough_cmd": "./check %s --tier thorough" % pid,
        "evidence_file": "/verif/evidence/%s.json" % pid,
        "replay_cmd_template": "./check %s --replay {path}" % pid,
        "engine": "simlib",
        "level_claimed": {"category": m.LEVEL, "text": m.LEVEL_TEXT,
                          "design_ref": "DESIGN.md section 5, %s" % pid},
        "level_note": m.LEVEL_NOTE,
        "technique": m.TECHNIQUE,
    })
na = [{"property_id": pid, "reason": NA[pid]} for pid in sorted(NA)]
for p in props:
    if p["id"] not in claimed and p["id"] not in NA:
        na.append({"property_id": p["id"],
                   "reason": "check not built yet in this session (work in "
                             "progress, see DESIGN.md section 10)"})
manifest = {
    "version": 1,
    "setup_cmd": "./tools/setup.sh",
    "hooks": {
        "guard": "MAGIC_WORMHOLE_VERIF",
        "enable": "no source hooks: all seams are existing injection points "
                  "or module globals replaced inside the simulator process "
                  "(simlib/boot.py); checks import wormhole from /repo/src as "
                  "it is",
        "baseline_off_cmd": "cd /repo && /venv/bin/python -m pytest -ra -q -p "
                            "no:cacheprovider --timeout=900 "
                            "--continue-on-collection-errors",
        "source_commits": [],
        "add_only": True,
    },
    "engines": [{
        "name": "simlib", "path": "/verif/simlib",
        "serves_properties": sorted(claimed),
        "kind_free_text": "deterministic discrete-event simulator: simulated "
        "Twisted reactor/clock/network, one decision tape per run, seeded "
        "search over schedules and fault sequences, ddmin minimisation, "
        "strict replay"}],
    "checks": checks,
    "not_applicable": na,
    "notes": "All checks: exit 0 = held on everything explored, exit 1 + "
             "VIOLATION line, exit 2 = harness error. VERIF_SEED, VERIF_TIER, "
             "VERIF_BUDGET_S, VERIF_REPO honoured.",
}
json.dump(manifest, open(os.path.join(HERE, "MANIFEST.json"), "w"), indent=1)
print("MANIFEST.json: %d checks, %d not_applicable" % (len(checks), len(na)))
