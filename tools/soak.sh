#!/bin/sh
# tools/soak.sh <first-seed> <passes> [workers] [tier] -- false-alarm soak: every check, quick tier
# by default, under seeds other than the default one; prints one line per check and pass.
# Evidence files are not written (--no-evidence). Exit 1 if any check did not exit 0.
cd "$(dirname "$0")/.." || exit 2
S0="$1"; N="${2:-1}"; W="${3:-16}"; TIER="${4:-quick}"
BAD=0
i=0
while [ $i -lt "$N" ]; do
  SEED=$((S0 + i * 7919003))
  for c in C01 C02 C03 C04 C05 C06 C07 C08 C09 C10 C11 C12 C13 C14 C15 C16 C17 C18 C19 C20; do
    OUT=$(./check $c --tier "$TIER" --seed $SEED --no-evidence --workers "$W" 2>&1); RC=$?
    echo "seed=$SEED $c exit=$RC $(echo "$OUT" | tail -1)"
    if [ $RC -ne 0 ]; then BAD=1; echo "$OUT" | tail -30; fi
  done
  i=$((i + 1))
done
exit $BAD
