#!/venv/bin/python
"""tools/sens_merge.py <dir>... -- merge out/sensitivity.<i>-of-<n>.json shard files (from the given
directories, e.g. the out/ of background runs) into out/sensitivity.json."""
import glob
import json
import os
import sys

HERE = os.path.dirname(os.path.dirname(os.path.abspath(__file__)))
rows = {}
for d in sys.argv[1:]:
    for f in sorted(glob.glob(os.path.join(d, "sensitivity.*-of-*.json"))):
        for r in json.load(open(f)):
            rows[r["mutant"]] = r
out = sorted(rows.values(), key=lambda r: (r["property"], r["mutant"]))
os.makedirs(os.path.join(HERE, "out"), exist_ok=True)
json.dump(out, open(os.path.join(HERE, "out", "sensitivity.json"), "w"), indent=1)
print("merged %d rows, caught %d" % (len(out), sum(1 for r in out if r["caught"])))
