#!/bin/sh
# tools/selftest.sh [--short|--long]: determinism self-test (each module, N
# seeds, 4 executions: twice in-process, fresh interpreter, forked pool)
HERE="$(cd "$(dirname "$0")/.." && pwd)"
cd "$HERE" || exit 2
PYTHONHASHSEED=0 PYTHONPATH="$HERE" exec /venv/bin/python simlib/selftest.py "$@"
