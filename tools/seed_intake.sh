#!/bin/sh
# tools/seed_intake.sh <Cxx> [worktree] [name under /verif/seeded]
# Confirms an independently produced breaking change held in a scratch git
# worktree of /repo (default /tmp/seed_<Cxx>):
#   1. the existing test suite passes with the change,
#   2. its demonstration fails with the change and passes without it,
# then copies patch.diff + demonstration + notes into /verif/seeded/<Cxx>/ and
# prints a verdict block (to be recorded in meta.json). The worktree is left
# in place; remove it with: git -C /repo worktree remove --force <dir>
ID="$1"; W="${2:-/tmp/seed_$ID}"; DEST="${3:-$ID}"
set -u
cd "$W" || exit 2
git diff -- src > "$W/.intake.diff"
[ -s "$W/.intake.diff" ] || { echo "no change in $W/src"; exit 2; }
DEMO=$(ls demo_*.py demo_*.sh 2>/dev/null | head -1)
[ -n "$DEMO" ] || { echo "no demo"; exit 2; }
run_demo() {
  case "$DEMO" in
    *_test.py) PYTHONPATH="$W/src" timeout 900 /venv/bin/python -m pytest -q -p no:cacheprovider "$DEMO" > "$1" 2>&1 ;;
    *.py) PYTHONPATH="$W/src" timeout 600 /venv/bin/python "$DEMO" > "$1" 2>&1 ;;
    *) PYTHONPATH="$W/src" timeout 600 sh "$DEMO" > "$1" 2>&1 ;;
  esac
  echo $?
}
echo "== import check"
PYTHONPATH="$W/src" /venv/bin/python -c "import wormhole; print(wormhole.__file__)"
echo "== tests with change"
PYTHONPATH="$W/src" timeout 1500 /venv/bin/python -m pytest -q -p no:cacheprovider --timeout=900 -x src/wormhole 2>&1 | tail -2
echo "== demo with change"
RC1=$(run_demo "$W/.demo_with.txt"); echo "exit=$RC1"; tail -5 "$W/.demo_with.txt"
git checkout -- src
echo "== demo without change"
RC0=$(run_demo "$W/.demo_without.txt"); echo "exit=$RC0"; tail -3 "$W/.demo_without.txt"
git apply "$W/.intake.diff"
mkdir -p "/verif/seeded/$DEST"
cp "$W/.intake.diff" "/verif/seeded/$DEST/patch.diff"
cp "$W/$DEMO" "/verif/seeded/$DEST/"
[ -f notes.md ] && cp notes.md "/verif/seeded/$DEST/notes.md"
tail -40 "$W/.demo_with.txt" > "/verif/seeded/$DEST/demo_output_with_change.txt"
tail -15 "$W/.demo_without.txt" > "/verif/seeded/$DEST/demo_output_without_change.txt"
echo "== verdict: demo_with=$RC1 demo_without=$RC0"
