"""World C: two real Dilation Managers (+Connectors, L2 protocols, subchannels)
on the simulated network.

fast variant: the mailbox is replaced by an in-order control channel per sender
  (what the property quantifiers call 'FIFO per sender'): Manager <-> FakeSend.
full variant: two real wormholes (world A) with dilation=True; see
  worlds/dilation_full.py.
"""
from simlib import boot  # noqa: F401
from simlib.core import Sim, HarnessError
from worlds.mailbox import LogCatcher

from zope.interface import implementer
from twisted.internet import protocol, interfaces
from twisted.internet.task import Cooperator

from wormhole._interfaces import ISend
from wormhole.eventual import EventualQueue
from wormhole._dilation import manager as dmanager
from wormhole._dilation.manager import Manager
from wormhole._dilation.roles import LEADER, FOLLOWER
from wormhole._dilation.connection import DilatedConnectionProtocol
from wormhole._dilation import connection as dconn

RELAY_HOST = "10.0.0.9"
RELAY_PORT = 4001


def unwrap(p):
    return getattr(p, "_wrappedProtocol", p)


@implementer(ISend)
class FakeSend:
    """Control channel: in order per sender, delivery chosen by the scheduler."""

    def __init__(self, world, name):
        self.world = world
        self.name = name
        self.queue = []       # messages to the peer, FIFO
        self.sent = []

    def send(self, phase, plaintext):
        self.sent.append((phase, plaintext))
        self.queue.append((phase, plaintext))
        self.world.sim.ev("ctl_send", self.name, phase)


class RecProtocol(protocol.Protocol):
    """Application protocol on a subchannel: records every callback."""

    def __init__(self, side, name, role):
        self.side = side
        self.name = name
        self.role = role          # "opener" | "acceptor"
        self.made = 0
        self.lost = 0
        self.data = []
        self.after_lost = 0
        self.scid = None
        self.writes = []
        self.closed_local = False
        self.write_errors = []

    def connectionMade(self):
        self.made += 1
        self.scid = self.transport._scid
        self.side.on_sub_event(self, "made", None)
        g = getattr(getattr(self.side, "world", None), "greeter", None)
        if g is not None:
            g(self)

    def dataReceived(self, data):
        if self.lost:
            self.after_lost += 1
        self.data.append(data)
        self.side.on_sub_event(self, "data", data)
        g = getattr(getattr(self.side, "world", None), "reactive", None)
        if g is not None:
            g(self, "data")

    def connectionLost(self, reason=None):
        self.lost += 1
        self.side.on_sub_event(self, "lost", None)
        g = getattr(getattr(self.side, "world", None), "reactive", None)
        if g is not None:
            g(self, "lost")


class RecFactory(protocol.Factory):
    noisy = False

    def __init__(self, side, name, role, cls=RecProtocol):
        self.side = side
        self.name = name
        self.role = role
        self.cls = cls
        self.built = []

    def buildProtocol(self, addr):
        p = self.cls(self.side, self.name, self.role)
        p.factory = self
        p.addr = addr
        self.built.append(p)
        self.side.protocols.append(p)
        return p


class Side:
    def __init__(self, world, name, dside):
        self.world = world
        self.name = name
        self.dside = dside        # dilation side string
        self.send = FakeSend(world, name)
        sim = world.sim
        self.eq = EventualQueue(sim.reactor)
        self.coop = Cooperator(scheduler=self.eq.eventually)
        self.m = None
        self.protocols = []       # every RecProtocol built on this side
        self.opened = []          # protocols from our connect() calls
        self.connect_results = []  # (name, state, value)
        self.listening = {}
        self.status = []
        self.started = False

    def build_manager(self, relay=None, ping_interval=30.0, expected=None,
                      no_listen=False):
        sim = self.world.sim
        self.m = Manager(self.send, self.dside, relay, sim.reactor, self.eq,
                         self.coop, ["ged"], float(ping_interval), expected,
                         no_listen, self.status.append, None)
        self.api = self.m._api
        return self.m

    def start(self, key, their_versions=None):
        # (the real Dilator holds inbound dilate-N messages until the peer's
        # versions have been seen; the control channel does the same)
        self.started = True
        self.m.got_dilation_key(key)
        self.m.got_wormhole_versions(their_versions if their_versions
                                     is not None else {"can-dilate": ["ged"]})

    # -- application ops -------------------------------------------------------
    def listen(self, name, cls=RecProtocol):
        f = RecFactory(self, name, "acceptor", cls)
        self.listening[name] = f
        d = self.api.listener_for(name).listen(f)

        def ready(port):
            self.__dict__.setdefault("listen_ready", {}).setdefault(
                name, self.world.sim.steps)
            return port
        d.addCallback(ready)
        d.addErrback(lambda fl: self.connect_results.append(
            ("listen:" + name, "failed", fl.type)))
        return f

    def connect(self, name, cls=RecProtocol):
        f = RecFactory(self, name, "opener", cls)
        rec = [name, "pending", None, len(self.connect_results),
               self.world.sim.steps]
        self.connect_results.append(rec)
        if getattr(self, "reuse_endpoints", False):
            # the usual Twisted idiom: keep the endpoint object around
            cache = self.__dict__.setdefault("_ep_cache", {})
            ep = cache.get(name)
            if ep is None:
                ep = cache[name] = self.api.connector_for(name)
        else:
            ep = self.api.connector_for(name)
        d = ep.connect(f)

        def ok(p):
            rec[1], rec[2] = "ok", p
            self.opened.append(p)
            self.world.sim.ev("sub_connected", self.name, name, p.scid)

        def bad(fl):
            rec[1], rec[2] = "failed", fl.type
            self.world.sim.ev("sub_connect_failed", self.name, name,
                              fl.type.__name__)
        d.addCallbacks(ok, bad)
        return rec

    def on_sub_event(self, p, kind, data):
        self.world.sim.ev("sub", self.name, p.scid, kind,
                          len(data) if data is not None else "")
        if self.world.on_sub_event:
            self.world.on_sub_event(self, p, kind, data)

    @property
    def role(self):
        return self.m._my_role

    def l2_protocols(self):
        return [p for p in self.world.l2 if p._connector._manager is self.m]

    def selected(self):
        """L2 protocols of this side that have been selected (and are still
        the manager's connection or were at some point)."""
        return [p for p in self.l2_protocols() if p._manager is not None]


class DilationWorld:
    def __init__(self, tape, opts=None, randomize=True):
        self.tape = tape
        self.opts = opts or {}
        self.sim = Sim(tape)
        if self.opts.get("_trace"):
            self.sim.trace = []
        if randomize:
            self.sim.randomize()
        # "provided the network lets at least one connection attempt of the
        # new generation complete": a SYN never takes longer than the
        # connector's own 30 s timeout
        self.sim.no_advance_while_connecting = True
        self.log = LogCatcher()
        self.key = tape.blob(32, 77)
        self.l2 = []              # every DilatedConnectionProtocol made
        self.l2_end = {}          # protocol -> End
        self.on_sub_event = None
        self.on_l2_made = None
        self.sim.on_end_made = self._end_made
        self.relay_url = None
        self.relay_factory = None
        sa = tape.blob(8, 1).hex()
        sb = tape.blob(8, 2).hex()
        if sa == sb:
            sb = "ff" + sb[2:]
        self.A = Side(self, "A", sa)
        self.B = Side(self, "B", sb)
        self.sides = (self.A, self.B)
        self.ctl_paused = False
        self.sim.app_events = self._app_events
        self.extra_app_events = None
        self.stranger_factories = set()

    def finish(self):
        self.log.stop()

    def peer_of(self, side):
        return self.B if side is self.A else self.A

    @property
    def leader(self):
        for s in self.sides:
            if s.role is LEADER:
                return s
        return None

    @property
    def follower(self):
        for s in self.sides:
            if s.role is FOLLOWER:
                return s
        return None

    # -- control channel ---------------------------------------------------
    def _deliver_ctl(self, src):
        phase, plaintext = src.send.queue.pop(0)
        dst = self.peer_of(src)
        self.sim.ev("ctl_deliver", src.name, phase)
        try:
            dst.m.received_dilation_message(plaintext)
        except Exception:
            from twisted.python import log, failure
            self.sim.note("exception_in_received_dilation_message")
            log.err(failure.Failure(), "sim: received_dilation_message raised")
            dst.ctl_errors = getattr(dst, "ctl_errors", 0) + 1

    def _app_events(self):
        evs = []
        if not self.ctl_paused:
            for s in self.sides:
                if s.send.queue and self.peer_of(s).started:
                    evs.append(("ctl:" + s.name,
                                lambda s=s: self._deliver_ctl(s)))
        if self.extra_app_events is not None:
            evs.extend(self.extra_app_events())
        return evs

    # -- relay -------------------------------------------------------------
    def start_relay(self):
        from wormhole_transit_relay.transit_server import (Transit,
                                                           TransitConnection)
        from wormhole_transit_relay.usage import create_usage_tracker
        usage = create_usage_tracker(blur_usage=None, log_file=None,
                                     usage_db=None)
        f = protocol.ServerFactory()
        f.protocol = TransitConnection
        f.log_requests = False
        f.noisy = False
        f.transit = Transit(usage, self.sim.reactor.seconds)
        self.relay_factory = f
        self.sim.reactor.listenTCP(RELAY_PORT, f)
        self.relay_url = "tcp:%s:%d" % (RELAY_HOST, RELAY_PORT)
        return self.relay_url

    # -- bookkeeping -------------------------------------------------------
    def _end_made(self, end):
        p = unwrap(end.protocol)
        if isinstance(p, DilatedConnectionProtocol):
            self.l2.append(p)
            self.l2_end[p] = end
            if self.on_l2_made:
                self.on_l2_made(p, end)

    def side_of_l2(self, p):
        for s in self.sides:
            if p._connector._manager is s.m:
                return s
        return None

    def current_link(self, side):
        """The simulated link behind the connection the manager is using."""
        c = side.m._connection
        if c is None:
            return None
        e = self.l2_end.get(c)
        return e.link if e is not None else None

    def both_connected(self):
        la, lb = self.current_link(self.A), self.current_link(self.B)
        return la is not None and la is lb and la.up

    def live_l2_links(self):
        out = []
        for p, e in self.l2_end.items():
            if e.link.up and e.link not in out:
                out.append(e.link)
        return out
