"""World D: the real `wormhole send` / `wormhole receive` command objects
(cmd_send / cmd_receive) on top of world A (real mailbox server) and the
simulated network for Transit, with a real scratch directory per side."""
import io
import os
import shutil
import tempfile
from unittest import mock

from simlib import boot  # noqa: F401
from worlds.mailbox import MailboxWorld
from worlds.transit import unwrap

from click.testing import CliRunner
from wormhole.cli import cli as _cli
from wormhole.cli import cmd_send, cmd_receive
from wormhole import transit

RELAY_HOST = "10.0.0.9"
RELAY_PORT = 4001


def cli_config(*argv):
    """The Config object the real CLI would hand to cmd_send/cmd_receive."""
    r = CliRunner()
    with mock.patch("wormhole.cli.cli.go") as go:
        res = r.invoke(_cli.wormhole, list(argv), catch_exceptions=False)
        if res.exit_code != 0:
            raise RuntimeError("cli parse failed: %r %r" % (argv, res.output))
        return go.call_args[0][1]


class CliWorld(MailboxWorld):
    def __init__(self, tape, opts=None):
        MailboxWorld.__init__(self, tape, dict(opts or {}, spake="stub"))
        self.base = tempfile.mkdtemp(prefix="mwsim-%d-" % os.getppid())
        self.send_dir = os.path.join(self.base, "send")
        self.recv_dir = os.path.join(self.base, "recv")
        os.mkdir(self.send_dir)
        os.mkdir(self.recv_dir)
        self.results = {}
        self.transit_links = []
        self.sim.on_end_made = self._cli_end_made
        self.relay_url = ""
        self.inputs = []          # scripted answers for input()
        self._input_patch = mock.patch("builtins.input", self._input)
        self._input_patch.start()
        self.prompts = []

    def _input(self, prompt=""):
        self.prompts.append(prompt)
        if self.inputs:
            return self.inputs.pop(0)
        return ""

    def cleanup(self):
        self._input_patch.stop()
        self.finish()
        # make everything deletable again (receivers may chmod to 0)
        for root, dirs, files in os.walk(self.base):
            for n in dirs + files:
                try:
                    os.chmod(os.path.join(root, n), 0o700)
                except OSError:
                    pass
        shutil.rmtree(self.base, ignore_errors=True)

    def start_relay(self):
        from wormhole_transit_relay.transit_server import (Transit,
                                                           TransitConnection)
        from wormhole_transit_relay.usage import create_usage_tracker
        from twisted.internet import protocol
        f = protocol.ServerFactory()
        f.protocol = TransitConnection
        f.log_requests = False
        f.noisy = False
        f.transit = Transit(create_usage_tracker(blur_usage=None,
                                                 log_file=None, usage_db=None),
                            self.sim.reactor.seconds)
        self.sim.reactor.listenTCP(RELAY_PORT, f)
        self.relay_url = "tcp:%s:%d" % (RELAY_HOST, RELAY_PORT)

    def _cli_end_made(self, end):
        self._end_made(end)
        p = unwrap(end.protocol)
        if isinstance(p, transit.Connection):
            if end.link not in self.transit_links:
                self.transit_links.append(end.link)
                if self.on_transit_link:
                    self.on_transit_link(end.link)
    on_transit_link = None

    def _args(self, kind, *extra):
        argv = ["--relay-url", self.server.url, "--transit-helper",
                self.relay_url, kind] + list(extra)
        cfg = cli_config(*argv)
        cfg.stdout = io.StringIO()
        cfg.stderr = io.StringIO()
        return cfg

    def send(self, *extra):
        cfg = self._args("send", "--hide-progress", "--no-qr", *extra)
        cfg.cwd = self.send_dir
        self.send_cfg = cfg
        return self._run("send", cmd_send.send, cfg)

    def receive(self, *extra):
        cfg = self._args("receive", "--hide-progress", *extra)
        cfg.cwd = self.recv_dir
        self.recv_cfg = cfg
        return self._run("receive", cmd_receive.receive, cfg)

    def _run(self, name, fn, cfg):
        try:
            d = fn(cfg, reactor=self.sim.reactor)
        except Exception as e:
            self.results[name] = ("raised", e)
            return
        d.addCallbacks(lambda r: self.results.__setitem__(name, ("ok", r)),
                       lambda f: self.results.__setitem__(name,
                                                          ("err", f.value)))
        self.sim.ev("cli_started", name)


def snapshot(root):
    """{relative path: (kind, content-or-None, mode)} for a directory tree."""
    out = {}
    for dirpath, dirs, files in os.walk(root):
        for n in dirs:
            p = os.path.join(dirpath, n)
            rel = os.path.relpath(p, root)
            if os.path.islink(p):
                out[rel] = ("link", os.readlink(p), 0)
                continue
            out[rel] = ("dir", None, os.stat(p).st_mode & 0o777)
        for n in files:
            p = os.path.join(dirpath, n)
            rel = os.path.relpath(p, root)
            if os.path.islink(p):
                out[rel] = ("link", os.readlink(p), 0)
                continue
            try:
                with open(p, "rb") as f:
                    data = f.read()
            except OSError:
                data = "<unreadable>"
            out[rel] = ("file", data, os.stat(p).st_mode & 0o777)
    return out
