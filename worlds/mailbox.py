"""World A: real wormhole clients <-> real mailbox server over the simulated
network, with a fault layer in between and scripted application actors."""
import hashlib
import json

from simlib import boot  # noqa: F401  (must be first)
from simlib.core import Sim, HarnessError
from simlib.ws import MailboxServer

import wormhole
from wormhole import _key as _wkey
from wormhole import errors as werrors
from twisted.python import log as _tlog
from twisted.python.failure import Failure

import spake2 as _spake2

_REAL_SPAKE = _spake2.SPAKE2_Symmetric


class StubSPAKE2(object):
    """Hash-based stand-in with SPAKE2_Symmetric's interface and observable
    algebra (same password+id => same key; otherwise different; own message
    reflected => ReflectionThwarted; malformed => SPAKEError)."""

    def __init__(self, password, idSymmetric=b""):
        self.pw = password
        self.ids = idSymmetric
        self._started = False

    def start(self):
        import os
        self._started = True
        self.r = os.urandom(32)
        self.msg = b"S" + self.r
        return self.msg

    def finish(self, inbound):
        if not isinstance(inbound, bytes) or len(inbound) != 33 or \
                inbound[:1] != b"S":
            raise _spake2.SPAKEError("stub: malformed message")
        if inbound == self.msg:
            raise _spake2.ReflectionThwarted
        a, b = sorted([self.r, inbound[1:]])
        return hashlib.sha256(b"stubspake" + a + b +
                              hashlib.sha256(self.pw).digest() +
                              hashlib.sha256(self.ids).digest()).digest()


def use_spake(kind):
    _wkey.SPAKE2_Symmetric = _REAL_SPAKE if kind == "real" else StubSPAKE2


# -----------------------------------------------------------------------------
CODE_OPS = ("allocate", "set_code", "set_code_from", "set_code_wrong_from",
            "input", "refresh_nameplates", "choose_nameplate_from",
            "choose_words_from", "choose_wrong_words_from")


class LogCatcher:
    """Collects Twisted log errors for the current run."""

    def __init__(self):
        self.errors = []
        _tlog.addObserver(self)

    def __call__(self, ev):
        if ev.get("isError"):
            f = ev.get("failure")
            if f is not None:
                self.errors.append((f.type.__name__, str(f.value)[:300],
                                    ev.get("why")))
            else:
                self.errors.append(("message", str(ev.get("message"))[:300],
                                    None))

    def stop(self):
        try:
            _tlog.removeObserver(self)
        except ValueError:
            pass


class _Delegate:
    def __init__(self, client):
        self.c = client

    def wormhole_got_welcome(self, welcome):
        self.c._ev("welcome", welcome)

    def wormhole_got_code(self, code):
        self.c._ev("code", code)

    def wormhole_got_unverified_key(self, key):
        self.c._ev("key", key)

    def wormhole_got_verifier(self, verifier):
        self.c._ev("verifier", verifier)

    def wormhole_got_versions(self, versions):
        self.c._ev("versions", versions)

    def wormhole_got_message(self, msg):
        self.c._ev("message", msg)

    def wormhole_closed(self, result):
        self.c._closed(result)


class Client:
    def __init__(self, world, name, appid="sim.example/app", api="deferred",
                 versions=None, dilation=False, url=None,
                 lazy_messages=False):
        self.world = world
        self.name = name
        self.api = api
        self.appid = appid
        self.events = []          # (kind, value) in observation order
        self.sent = []
        self.received = []
        self.closed_results = []  # every closed notification seen
        self.close_called = False
        self.api_errors = []      # unexpected exceptions escaping API calls
        self.expected_errors = []  # documented exceptions we provoked
        self.helper = None
        self.script = []
        self.pc = 0
        self.extra_gets = []      # [kind, state] for C18
        self.ever_open = False    # first websocket open seen
        self.lazy_messages = lazy_messages
        # an application that calls back into the library from inside its
        # callbacks (half of the clients when the world option is on)
        self.reentrant = bool(world.opts.get("reentrant")) and \
            (world.tape.choose(2, "reentrant") == 0 or
             bool(world.opts.get("status_heavy")))
        self.react_budget = world.tape.choose(3, "react") \
            if self.reentrant else 0
        self.saw_failure = False  # the app has been told about an error
        self._wait_from = {}
        self.versions = versions if versions is not None else {}
        sim = world.sim
        kw = {}
        if dilation:
            kw["dilation"] = True
        if api == "delegate":
            kw["delegate"] = _Delegate(self)
        self.w = None
        self.statuses = 0
        self.status_react = 0
        if self.reentrant:
            # ... such an application also asks for status updates and may
            # send from inside that callback (e.g. a "status report")
            self.status_react = world.tape.choose(3, "status_react") \
                if not world.opts.get("status_heavy") else 4
            kw["on_status_update"] = self._on_status
        self.w = wormhole.create(appid, url or world.server.url, sim.reactor,
                                 versions=self.versions, **kw)
        self.side = self.w._boss._side
        if api == "deferred":
            self._attach()

    # -- recording ---------------------------------------------------------
    def _ev(self, kind, value):
        self.events.append((kind, value))
        if kind == "message":
            self.received.append(value)
        self.world.sim.ev("appev", self.name, kind)
        if self.world.on_app_event:
            self.world.on_app_event(self, kind, value)
        if self.reentrant and kind in ("key", "verifier", "versions",
                                       "message") and \
                self.pc < len(self.script) and \
                self.script[self.pc][0] in ("send", "close") and \
                self.world.tape.choose(2, "reenter") == 0:
            # the application reacts from inside the callback: its next
            # scripted send / close happens right here, re-entrantly
            self.world.sim.note("probe.api_call_from_inside_callback")
            self.world._step_op(self, self.script[self.pc])
        elif self.reentrant and self.react_budget > 0 and \
                kind in ("verifier", "versions", "message") and \
                not self.close_called and not self.is_closed:
            # ... or answers at once with a message of its own
            self.react_budget -= 1
            self.world.sim.note("probe.api_call_from_inside_callback")
            self.do_send(b"re:%s:%d" % (self.name.encode(),
                                        len(self.sent)))

    def _closed(self, result, primary=True):
        self.closed_results.append(result)
        if not primary:
            # a later close() call of the Deferred API got its own answer
            self.world.sim.ev("appev", self.name, "closed_again",
                              type(result).__name__)
            return
        self.events.append(("closed", result))
        self.world.sim.ev("appev", self.name, "closed",
                          type(result).__name__)
        if self.world.on_app_event:
            self.world.on_app_event(self, "closed", result)

    ONE_SHOT_ORDER = ("code", "key", "verifier", "versions")

    def _observe(self, kind):
        """Book-keeping for 'events are seen in order whatever the timing of
        the get_*() calls': returns a function to call when this observation
        fires. An observation of a later event must not fire while one of an
        earlier event that was requested before it is still pending."""
        if kind not in self.ONE_SHOT_ORDER:
            return lambda: None
        if not hasattr(self, "observations"):
            self.observations = []
        rec = [kind, "pending"]
        self.observations.append(rec)
        mine = len(self.observations) - 1

        def fired():
            rec[1] = "fired"
            if self.closed_results and \
                    self.world.observation_order_violation is None:
                # the value of an event is handed over after the application
                # has already been given the closed notification
                self.world.observation_order_violation = (
                    self.name, kind, "closed")
            rank = self.ONE_SHOT_ORDER.index(kind)
            for other in self.observations[:mine]:
                if other[1] == "pending" and \
                        self.ONE_SHOT_ORDER.index(other[0]) < rank and \
                        self.world.observation_order_violation is None:
                    self.world.observation_order_violation = (
                        self.name, kind, other[0])
        rec.append(fired)
        return fired

    def _attach(self):
        w = self.w
        for kind, getter in (("welcome", w.get_welcome),
                             ("code", w.get_code),
                             ("key", w.get_unverified_key),
                             ("verifier", w.get_verifier),
                             ("versions", w.get_versions)):
            fired = self._observe(kind)
            d = getter()
            d.addCallbacks(lambda v, k=kind, fired=fired: (fired(),
                                                           self._ev(k, v)),
                           lambda f, k=kind: self._err(k, f))
        if not self.lazy_messages:
            # a pipelined reader keeps several get_message() Deferreds
            # outstanding and re-issues one from each callback
            depth = 1
            if self.world.opts.get("pipeline") == "deep":
                # a consumer that keeps a long window of reads outstanding
                depth = 11 + self.world.tape.choose(15, "pipeline_deep")
            elif self.world.opts.get("pipeline"):
                depth = 1 + self.world.tape.choose(3, "pipeline")
                if depth > 1:
                    self.world.sim.note("probe.pipelined_get_message")
            for _ in range(depth):
                self._next_message()

    def _err(self, kind, f):
        self.saw_failure = True
        self.events.append((kind + "_err", f.type))
        self.world.sim.ev("appev", self.name, kind + "_err", f.type.__name__)

    def _next_message(self):
        d = self.w.get_message()
        d.addCallbacks(self._got_message, lambda f: self._err("message", f))

    def _got_message(self, m):
        self._ev("message", m)
        self._next_message()

    # -- state queries -------------------------------------------------------
    def has(self, kind):
        for k, _ in self.events:
            if k == kind:
                return True
        return False

    def value(self, kind):
        for k, v in self.events:
            if k == kind:
                return v
        return None

    @property
    def code(self):
        return self.value("code")

    @property
    def is_closed(self):
        return bool(self.closed_results)

    # -- API calls (each wrapped so that nothing escapes unnoticed) -----------
    def call(self, label, fn, *args, expect=()):
        try:
            return fn(*args)
        except expect as e:
            self.expected_errors.append((label, type(e).__name__))
            self.world.sim.ev("api_exc", self.name, label, type(e).__name__)
            return None
        except Exception as e:
            self.api_errors.append((label, type(e).__name__, str(e)[:200]))
            self.world.sim.ev("api_exc!", self.name, label, type(e).__name__)
            return None

    def _on_status(self, status):
        self.statuses += 1
        self.world.sim.ev("appev", self.name, "status",
                          type(getattr(status, "mailbox_connection",
                                       None)).__name__)
        if self.w is None or self.status_react <= 0 or self.close_called \
                or self.is_closed or not self.has("code") or \
                self.world.winding_down:
            return
        if self.world.opts.get("status_heavy") or \
                self.world.tape.choose(2, "status_send") == 0:
            self.status_react -= 1
            self.world.sim.note("probe.api_call_from_status_callback")
            self.do_send(b"st:%s:%d" % (self.name.encode(), len(self.sent)))

    def do_close(self):
        primary = not self.close_called
        self.close_called = True
        if self.api == "deferred":
            d = self.call("close", self.w.close)
            if d is not None:
                d.addCallbacks(lambda r: self._closed(r, primary),
                               lambda f: self._closed(f.value, primary))
        else:
            self.call("close", self.w.close)

    def do_send(self, data):
        self.sent.append(data)
        self.call("send", self.w.send_message, data)


class MailboxWorld:
    def __init__(self, tape, opts=None, welcome=None, randomize=True):
        self.tape = tape
        self.opts = opts or {}
        self.sim = Sim(tape)
        if self.opts.get("_trace"):
            self.sim.trace = []
        if randomize:
            self.sim.randomize()
        use_spake(self.opts.get("spake", "stub"))
        self.log = LogCatcher()
        self.server = MailboxServer(self.sim, welcome=welcome)
        self.clients = []
        self.on_app_event = None
        self.on_server_msg = None   # callable(client, msg dict) at delivery
        self.on_op = None           # callable(client, op, ok) after an op ran
        self.before_op = None       # callable(client, op) just before
        self.extra_ops = None       # {kind: callable(client)}
        self.extra_fault_events = None
        self.observation_order_violation = None
        self._ka = None
        self.fault_budget = 0
        self.faults_fired = []
        self.fault_kinds = ()
        self.sim.app_events = self._app_events
        self.sim.on_end_made = self._end_made
        self.sim.fault_events = self._fault_events
        self.extra_app_events = None
        # Autobahn keeps dispatching frames it has already buffered (same TCP
        # segment) after wormhole asked the transport to close: in a third of
        # the runs in-flight messages may still be delivered between
        # loseConnection() and connectionLost
        if self.opts.get("read_after_lose", True) and \
                self.tape.choose(3, "ral") == 0:
            self.sim.net.read_after_lose = True
            self.sim.note("probe.frames_dispatched_after_loseConnection")
        if self.opts.get("pipeline") == "deep" or self.opts.get("msg_burst"):
            self.sim.msg_burst = True
        self.unwelcome_done = False
        self._planned = []
        self.port_down = False
        self.port_heal_at = 0
        self.reorder_heavy = bool(self.opts.get("reorder_heavy"))

    def _end_made(self, end):
        if end.role != "c" or end.link.mode != "message":
            return
        p = end.protocol
        p = getattr(p, "_wrappedProtocol", p)
        rc = getattr(p, "_RC", None)
        if rc is not None:
            for c in self.clients:
                if c.side == rc._side:
                    end.link.owner = c
        if self.reorder_heavy:
            end.link.picker = self._pick_unordered
        if self.on_server_msg is not None:
            end.link.tap = self._tap

    def _tap(self, end, data):
        if end.role == "c" and data[:1] == b"M" and end.link.owner is not None:
            self.on_server_msg(end.link.owner,
                               json.loads(data[1:].decode("utf-8")))

    def _pick_unordered(self, end):
        """The server 'does not retain ordering' of `message` events: deliver
        any in-flight `message`, skipping only over other messages/acks."""
        if end.role != "c":
            return 0
        cands = []
        for i, m in enumerate(end.inflight):
            t = _msg_type(m)
            if t == "message":
                cands.append(i)
            elif t != "ack":
                if i == 0:
                    return 0
                break
            if len(cands) >= 6:
                break
        if len(cands) <= 1:
            return cands[0] if cands and cands[0] == 0 else 0
        j = self.tape.pick(cands, "unordered")
        if j:
            self.sim.note("fault.mbox_unordered_delivery")
        return j

    def finish(self):
        self.log.stop()
        use_spake("real")

    def add_client(self, name, **kw):
        c = Client(self, name, **kw)
        self.clients.append(c)
        return c

    def by_name(self, name):
        for c in self.clients:
            if c.name == name:
                return c
        raise KeyError(name)

    # -- scripted actors -------------------------------------------------------
    def _op_enabled(self, c, op):
        kind = op[0]
        if kind in ("set_code_from", "choose_nameplate_from",
                    "choose_words_from", "set_code_wrong_from",
                    "choose_wrong_words_from"):
            src = self.by_name(op[1])
            # if the originator gave up before it had a code, skip the op
            return src.code is not None or src.is_closed
        if kind == "wait_received":
            return len(c.received) >= op[1] or c.is_closed
        if kind == "wait_event":
            return c.has(op[1]) or c.is_closed or c.saw_failure
        if kind == "wait_event_or_steps":
            return c.has(op[1]) or c.is_closed or c.saw_failure or \
                self._waited(c, op[2] * 0.05)
        if kind == "wait_steps":
            return self._waited(c, op[1] * 0.05)
        if kind == "wait_all_delivered_or_steps":
            return self._op_enabled(c, ("wait_all_delivered", op[1])) or \
                self._waited(c, op[2] * 0.05)
        if kind == "wait_all_delivered":
            # stands in for an application-level "we are done" handshake: both
            # directions fully delivered (or somebody already closed)
            peer = self.by_name(op[1])
            if c.is_closed or peer.is_closed or c.saw_failure or \
                    peer.saw_failure:
                return True
            for x, y in ((c, peer), (peer, c)):
                if not x.has("versions"):
                    return False
                pending_send = False
                for o in y.script[y.pc:]:
                    if o[0] == "close":
                        break
                    if o[0] == "send":
                        pending_send = True
                if pending_send:
                    return False
                if len(x.received) < len(y.sent):
                    return False
            return True
        return True

    def _waited(self, c, delay):
        """Wait measured in simulator events (delay/0.05 of them), so that the
        scheduler's clock jumps do not shorten it; a keep-alive timer makes an
        otherwise idle simulation tick."""
        if c.pc not in c._wait_from:
            c._wait_from[c.pc] = self.sim.steps + int(round(delay / 0.05))
            self._keepalive()
        return self.sim.steps >= c._wait_from[c.pc]

    def _keepalive(self):
        if self._ka is not None:
            return
        waiting = False
        for c in self.clients:
            t = c._wait_from.get(c.pc)
            if t is not None and self.sim.steps < t and c.pc < len(c.script):
                waiting = True
        if waiting:
            self._ka = self.sim.reactor.callLater(0.25, self._ka_tick)

    def _ka_tick(self):
        self._ka = None
        self._keepalive()

    def _run_op(self, c, op):
        kind = op[0]
        w = c.w
        E = werrors
        if kind.endswith("_from") and self.by_name(op[1]).code is None:
            self.sim.ev("op_skipped", c.name, kind)
            return "skipped"
        late_words = self.opts.get("late_words") and \
            kind == "choose_words_from" and c.helper is not None and \
            getattr(c, "last_nameplate", None) is not None
        if late_words and (c.saw_failure or c.is_closed or c.close_called):
            # the user of an interactive prompt finishes typing the words
            # after the wormhole closed (or failed) under them
            self.sim.note("probe.words_entered_after_close")
        if (kind in CODE_OPS or kind in ("helper", "dilate")) and \
                (c.saw_failure or c.is_closed or c.close_called) and \
                not self.opts.get("ambiguous_calls") and not late_words:
            # an application that was already told the wormhole failed does
            # not go on entering a code
            self.sim.ev("op_skipped", c.name, kind)
            return "skipped"
        if kind in ("refresh_nameplates", "choose_nameplate_from",
                    "choose_words_from", "choose_wrong_words_from") and \
                c.helper is None:
            return "skipped"
        if kind == "allocate":
            c.call("allocate", w.allocate_code, op[1],
                   expect=(E.OnlyOneCodeError,))
        elif kind == "set_code":
            c.last_code = op[1]
            c.call("set_code", w.set_code, op[1],
                   expect=(E.OnlyOneCodeError, E.KeyFormatError))
        elif kind == "set_code_from":
            c.last_code = self.by_name(op[1]).code
            c.call("set_code", w.set_code, c.last_code,
                   expect=(E.OnlyOneCodeError,))
        elif kind == "set_code_wrong_from":
            c.last_code = self.by_name(op[1]).code + "x"
            c.call("set_code", w.set_code, c.last_code,
                   expect=(E.OnlyOneCodeError,))
        elif kind == "choose_wrong_words_from":
            words = self.by_name(op[1]).code.split("-", 1)[1] + "x"
            c.call("choose_words", c.helper.choose_words, words,
                   expect=(E.AlreadyChoseWordsError,
                           E.MustChooseNameplateFirstError))
        elif kind == "input":
            h = c.call("input_code", w.input_code,
                       expect=(E.OnlyOneCodeError,))
            if h is not None:
                c.helper = h
        elif kind == "refresh_nameplates":
            c.call("refresh", c.helper.refresh_nameplates,
                   expect=(E.AlreadyChoseNameplateError,))
        elif kind == "choose_nameplate_from":
            np = self.by_name(op[1]).code.split("-", 1)[0]
            c.last_nameplate = np
            c.call("choose_nameplate", c.helper.choose_nameplate, np,
                   expect=(E.AlreadyChoseNameplateError,))
        elif kind == "choose_words_from":
            words = self.by_name(op[1]).code.split("-", 1)[1]
            c.call("choose_words", c.helper.choose_words, words,
                   expect=(E.AlreadyChoseWordsError,
                           E.MustChooseNameplateFirstError))
        elif kind == "helper":
            if c.helper is None:
                return "skipped"
            r = c.call("helper." + op[1], getattr(c.helper, op[1]), *op[2:],
                       expect=(E.AlreadyChoseNameplateError,
                               E.AlreadyChoseWordsError,
                               E.MustChooseNameplateFirstError,
                               E.KeyFormatError))
            if op[1] == "when_wordlist_is_available" and r is not None and \
                    self.opts.get("wordlist_cb"):
                # a UI with live completion: the moment the wordlist is
                # there it asks for completions (or the user gives up / has
                # typed the words already) - from inside the callback
                act = self.tape.pick(("completions", "completions", "close",
                                      "words"), "wlcb")
                peer = [x for x in self.clients if x is not c and
                        x.code][:1]

                def cb(_, c=c, act=act, peer=peer):
                    self.sim.note("probe.api_call_from_wordlist_callback")
                    if act == "completions" or (act == "words" and not peer):
                        c.call("helper.get_word_completions[wordlist cb]",
                               c.helper.get_word_completions, "a",
                               expect=(E.AlreadyChoseWordsError,))
                    elif act == "close":
                        if not c.close_called:
                            c.do_close()
                    else:
                        c.call("helper.choose_words[wordlist cb]",
                               c.helper.choose_words,
                               peer[0].code.split("-", 1)[1],
                               expect=(E.AlreadyChoseWordsError,
                                       E.MustChooseNameplateFirstError))
                r.addCallback(cb)
                r.addErrback(lambda f: None)
        elif kind == "derive_key":
            c.call("derive_key", w.derive_key, op[1], op[2],
                   expect=(E.NoKeyError,))
        elif kind == "dilate":
            c.dilated = c.call("dilate", lambda: w.dilate(**op[1]))
        elif kind == "send":
            c.do_send(op[1])
        elif kind == "close":
            c.do_close()
        elif kind == "get":
            self._extra_get(c, op[1])
        elif kind.startswith("wait"):
            pass
        elif self.extra_ops and kind in self.extra_ops:
            self.extra_ops[kind](c)
        else:
            raise HarnessError("unknown op %r" % (op,))

    def _extra_get(self, c, kind):
        w = c.w
        if c.api != "deferred":
            return
        getter = {"welcome": w.get_welcome, "code": w.get_code,
                  "key": w.get_unverified_key, "verifier": w.get_verifier,
                  "versions": w.get_versions, "message": w.get_message}[kind]
        rec = [kind, "pending", None, c.is_closed]
        c.extra_gets.append(rec)
        obs_fired = c._observe(kind)
        d = c.call("get_" + kind, getter)
        if d is None:
            rec[1] = "raised"
            return

        def ok(v):
            rec[1] = "fired"
            rec[2] = v
            obs_fired()
            if kind == "message":
                # a message consumed by an extra get_message() still counts
                c._ev("message", v)

        def bad(f):
            rec[1] = "failed"
            rec[2] = f.type
        d.addCallbacks(ok, bad)

    def _app_events(self):
        evs = []
        for c in self.clients:
            if c.pc < len(c.script):
                op = c.script[c.pc]
                if self._op_enabled(c, op):
                    evs.append(("%s:%s" % (c.name, op[0]),
                                lambda c=c, op=op: self._step_op(c, op)))
        if self.extra_app_events is not None:
            evs.extend(self.extra_app_events())
        return evs

    winding_down = False

    def _step_op(self, c, op):
        c.pc += 1
        if op[0] in ("wait_all_delivered", "wait_all_delivered_or_steps",
                     "close"):
            # somebody has decided that the conversation is over: no more
            # unsolicited messages from status callbacks after this point
            self.winding_down = True
        n_exp, n_err = len(c.expected_errors), len(c.api_errors)
        if self.before_op is not None:
            self.before_op(c, op)
        skipped = self._run_op(c, op) == "skipped"
        if self.on_op is not None:
            self.on_op(c, op, not skipped and
                       n_exp == len(c.expected_errors) and
                       n_err == len(c.api_errors))

    def scripts_done(self):
        return all(c.pc >= len(c.script) for c in self.clients)

    # -- fault layer -----------------------------------------------------------
    def ws_links(self, client=None, live_only=True):
        out = []
        for link in self.sim.net.links:
            if link.mode != "message":
                continue
            if live_only and not link.up:
                continue
            if client is not None and link.owner is not client:
                continue
            out.append(link)
        return out

    def _fault_events(self):
        if self.port_down and self.sim.steps >= self.port_heal_at:
            return [("port_heal", lambda: self._f_port("ok"))]
        if self.fault_budget <= 0:
            return []
        evs = []
        kinds = self.fault_kinds
        net = self.sim.net
        all_open = True
        for c in self.clients:
            if not c.ever_open:
                for link in net.links:
                    if link.owner is c:
                        p = link.ends[0].protocol
                        p = getattr(p, "_wrappedProtocol", p)
                        if getattr(p, "opened", False):
                            c.ever_open = True
                if not c.ever_open:
                    all_open = False
        for link in net.links:
            if link.mode != "message":
                continue
            # the *initial* connection failing is documented as fatal
            # (ServerConnectionError); faults only hit established sessions
            if link.owner is None or not (link.owner.ever_open or
                                          self.opts.get("fault_initial")):
                continue
            c_end, s_end = link.ends
            if link.up and (c_end.alive or s_end.alive):
                lab = "%d" % link.serial
                if "cut" in kinds:
                    # a loss is more interesting while several client
                    # messages are still on their way up (they are lost and
                    # must be re-sent after the reconnect)
                    up = len(s_end.inflight) + len(c_end.sendbuf)
                    closing = any(_msg_type(m) in ("close", "release")
                                  for m in list(s_end.inflight)[:4])
                    # ... or while a close/release is on its way up (the
                    # client must re-send it after the reconnect)
                    evs.append(("cut:" + lab, lambda l=link: self._f_cut(l),
                                8 if closing else (6 if up >= 2 else 1)))
                if "half_open" in kinds and c_end.made and s_end.made:
                    evs.append(("half_open_c:" + lab,
                                lambda l=link: self._f_cut(l, ("c",))))
                    evs.append(("half_open_s:" + lab,
                                lambda l=link: self._f_cut(l, ("s",))))
                if "ws_close" in kinds and c_end.made and s_end.made and \
                        getattr(s_end.protocol, "opened", False) and \
                        not getattr(s_end.protocol, "closing", False):
                    evs.append(("ws_close:" + lab,
                                lambda l=link: self._f_ws_close(l)))
                if "stall" in kinds and c_end.made and s_end.made:
                    # one direction stops draining for a while (data stays in
                    # flight; a later cut loses it)
                    for tag, e in (("s", s_end), ("c", c_end)):
                        if e.alive:
                            evs.append(("%sstall_%s:%s" % (
                                "un" if e.stalled else "", tag, lab),
                                lambda e=e, tag=tag: self._f_stall(e, tag)))
                if ("mbox_dup" in kinds or "mbox_reorder" in kinds):
                    msgs = [i for i, m in enumerate(c_end.inflight)
                            if _is_message(m)]
                    if msgs and "mbox_dup" in kinds:
                        evs.append(("mbox_dup:" + lab,
                                    lambda e=c_end, ms=msgs:
                                    self._f_dup(e, ms)))
                    if len(msgs) >= 2 and "mbox_reorder" in kinds:
                        evs.append(("mbox_reorder:" + lab,
                                    lambda e=c_end, ms=msgs:
                                    self._f_reorder(e, ms)))
            elif not link.up:
                # half-open leftovers can be revealed
                if any(e.alive and e.made and e.lost_pending is None
                       for e in link.ends):
                    evs.append(("reveal:%d" % link.serial,
                                lambda l=link: self._f_reveal(l)))
        if not all_open and not self.opts.get("fault_initial"):
            return evs
        if "server_restart" in kinds and any(
                l.up for l in net.links if l.mode == "message"):
            evs.append(("server_restart", self._f_restart))
        if "restart_unwelcome" in kinds and not self.unwelcome_done and any(
                l.up for l in net.links if l.mode == "message"):
            # the operator restarts the server with --signal-error: every
            # connection drops, and the welcome of every later connection
            # carries an error
            evs.append(("restart_unwelcome", self._f_restart_unwelcome))
        if "refuse" in kinds:
            if not self.port_down:
                evs.append(("refuse_on", lambda: self._f_port("refuse")))
                if "hang" in kinds:
                    evs.append(("hang_on", lambda: self._f_port("hang")))
            else:
                evs.append(("port_heal", lambda: self._f_port("ok")))
        if self.extra_fault_events is not None:
            evs.extend(self.extra_fault_events())
        if "mbox_replay_stored" in kinds:
            for link in net.links:
                if link.mode == "message" and link.up and \
                        link.ends[0].alive and link.ends[1].alive and \
                        getattr(link.ends[1].protocol, "ws", None) is not None \
                        and link.ends[1].protocol.ws._mailbox is not None:
                    evs.append(("mbox_replay_stored:%d" % link.serial,
                                lambda l=link: self._f_replay_stored(l)))
        return evs

    def plan_uplink_loss(self, victim, t1, t2):
        """Planned compound fault: from simulator event t1 on, the server
        stops reading `victim`'s established connection (its messages stay in
        flight while the downlink keeps working); at event t2 the connection
        dies and whatever was in flight is lost. Returns a function to be
        called after every step."""
        st = {"phase": 0, "link": None}
        self._planned.append(st)

        def tick():
            if st["phase"] == 0 and self.sim.steps >= t1:
                for link in self.ws_links(victim):
                    p = link.ends[0].protocol
                    p = getattr(p, "_wrappedProtocol", p)
                    if getattr(p, "opened", False) and link.ends[1].made:
                        link.ends[1].stalled = True
                        st["phase"], st["link"] = 1, link
                        self.sim.note("fault.uplink_stall")
                        self.faults_fired.append((self.sim.steps,
                                                  "uplink_stall:%d" %
                                                  link.serial))
                        break
            elif st["phase"] == 1 and (self.sim.steps >= t2 or
                                       st.get("finish")):
                st["phase"] = 2
                link = st["link"]
                if link.up:
                    lost = len(link.ends[1].inflight)
                    self.sim.note("fault.uplink_loss_cut")
                    if lost >= 2:
                        self.sim.note("probe.cut_with_2plus_client_messages_"
                                      "in_flight")
                    self.faults_fired.append((self.sim.steps,
                                              "uplink_loss_cut:%d(lost %d)" %
                                              (link.serial, lost)))
                    self.sim.net.cut(link)
        st["tick"] = tick
        return tick

    def plan_downlink_stall(self, victim, t1, t2):
        """Planned fault: from simulator event t1 to t2 `victim` does not
        read its established connection (the server's replies wait in flight:
        a slow or busy client). Returns the per-step tick."""
        st = {"phase": 0, "end": None}
        self._planned.append(st)

        def tick():
            if st["phase"] == 0 and self.sim.steps >= t1:
                for link in self.ws_links(victim):
                    p = link.ends[0].protocol
                    p = getattr(p, "_wrappedProtocol", p)
                    if getattr(p, "opened", False):
                        link.ends[0].stalled = True
                        st["phase"], st["end"] = 1, link.ends[0]
                        self.sim.note("fault.downlink_stall")
                        self.faults_fired.append((self.sim.steps,
                                                  "downlink_stall:%d" %
                                                  link.serial))
                        break
            elif st["phase"] == 1 and (self.sim.steps >= t2 or
                                       st.get("finish")):
                st["phase"] = 2
                st["end"].stalled = False
        st["tick"] = tick
        return tick

    def _spend(self, what):
        self.fault_budget -= 1
        self.faults_fired.append((self.sim.steps, what))

    def _f_cut(self, link, tell=("c", "s")):
        self._spend("cut%s:%d" % ("" if len(tell) == 2 else "_" + tell[0],
                                  link.serial))
        self.sim.net.cut(link, tell)

    def _f_ws_close(self, link):
        self._spend("ws_close:%d" % link.serial)
        p = link.ends[1].protocol
        p = getattr(p, "_wrappedProtocol", p)
        p.send_close_frame()

    def _f_stall(self, end, tag):
        if end.stalled:
            end.stalled = False
            self.faults_fired.append((self.sim.steps, "unstall_" + tag))
        else:
            self._spend("stall_%s:%d" % (tag, end.link.serial))
            end.stalled = True

    def _f_reveal(self, link):
        self.faults_fired.append((self.sim.steps, "reveal:%d" % link.serial))
        self.sim.net.reveal(link)

    def _f_restart(self):
        self._spend("server_restart")
        for link in list(self.sim.net.links):
            if link.mode == "message" and link.up:
                self.sim.net.cut(link)

    def _f_restart_unwelcome(self):
        self.unwelcome_done = True
        self.server.server._welcome = dict(self.server.server._welcome or {},
                                           error="sim: server is going away")
        self._f_restart()

    def _f_port(self, mode):
        if mode != "ok":
            self._spend("port_" + mode)
            self.port_heal_at = self.sim.steps + 5 + \
                self.tape.choose(150, "heal_after")
        self.port_down = mode != "ok"
        self.sim.net.port_mode[self.server.port] = mode

    def _f_dup(self, end, idxs):
        self._spend("mbox_dup")
        i = self.tape.pick(idxs, "dup_i")
        # a duplicate is delivered again somewhere later in the stream
        j = self.tape.randint(i + 1, len(end.inflight), "dup_j")
        end.inflight.insert(j, end.inflight[i])

    def _f_reorder(self, end, idxs):
        self._spend("mbox_reorder")
        a = self.tape.choose(len(idxs) - 1, "re_i")
        i, j = idxs[a], idxs[a + 1]
        end.inflight[i], end.inflight[j] = end.inflight[j], end.inflight[i]

    def _f_replay_stored(self, link):
        """The server re-delivers one message it has stored for this mailbox
        (it 'does not de-duplicate')."""
        self._spend("mbox_replay_stored")
        ws = link.ends[1].protocol.ws
        msgs = ws._mailbox.get_messages()
        if not msgs:
            return
        sm = self.tape.pick(msgs, "replay_i")
        ws.send("message", side=sm.side, phase=sm.phase, body=sm.body,
                server_rx=sm.server_rx, id=sm.msg_id)

    def heal(self):
        """End of chaos: restore connectivity, reveal half-open links."""
        self.fault_budget = 0
        self.sim.chaos = False
        self.port_down = False
        self.sim.net.port_mode[self.server.port] = "ok"
        for st in self._planned:
            # planned compound faults end with the chaos: one that has not
            # begun never does, one in its stall phase loses the link now
            if st["phase"] == 0:
                st["phase"] = 2
            elif st["phase"] == 1:
                st["finish"] = True
                st["tick"]()
        for link in self.sim.net.links:
            for e in link.ends:
                e.stalled = False
            if not link.up:
                self.sim.net.reveal(link)


def _msg_type(m):
    if m[:1] != b"M":
        return None
    try:
        return json.loads(m[1:].decode("utf-8")).get("type")
    except Exception:
        return None


def _is_message(m):
    return _msg_type(m) == "message"
