"""World B: real TransitSender / TransitReceiver (and optionally the real
transit relay and scripted strangers) on the simulated network."""
from simlib import boot  # noqa: F401
from simlib.core import Sim, HarnessError
from worlds.mailbox import LogCatcher

from twisted.internet import protocol
from wormhole import transit

RELAY_HOST = "10.0.0.9"
RELAY_PORT = 4001


def unwrap(p):
    return getattr(p, "_wrappedProtocol", p)


class Party:
    """One transit endpoint (sender or receiver)."""

    def __init__(self, world, name, obj):
        self.world = world
        self.name = name
        self.t = obj
        self.result = None        # ("ok", Connection) | ("err", Failure)
        self.connect_called_at = None
        self.connect_fired_at = None
        self.connect_d = None
        self.hints = None

    def connect(self):
        self.connect_called_at = self.world.sim.now()
        d = self.t.connect()

        def ok(c):
            self.result = ("ok", c)
            self.connect_fired_at = self.world.sim.now()
            self.world.sim.ev("connect_ok", self.name)
            return None

        def bad(f):
            self.result = ("err", f)
            self.connect_fired_at = self.world.sim.now()
            self.world.sim.ev("connect_err", self.name, f.type.__name__)
            return None
        d.addCallbacks(ok, bad)
        self.connect_d = d
        return d


class TransitWorld:
    def __init__(self, tape, opts=None, randomize=True):
        self.tape = tape
        self.opts = opts or {}
        self.sim = Sim(tape)
        if self.opts.get("_trace"):
            self.sim.trace = []
        if randomize:
            self.sim.randomize()
        self.log = LogCatcher()
        self.key = tape.blob(32, 99)
        self.relay_url = None
        self.relay_factory = None
        self.relay_factories = []
        self.parties = []
        self.sim.on_end_made = self._end_made
        self.sim.on_write = self._on_write
        self.ends = []            # every made end, in order
        self.stranger_factories = set()

    def finish(self):
        self.log.stop()

    # -- relay -------------------------------------------------------------
    def start_relay(self, port=None):
        from wormhole_transit_relay.transit_server import (Transit,
                                                           TransitConnection)
        from wormhole_transit_relay.usage import create_usage_tracker
        usage = create_usage_tracker(blur_usage=None, log_file=None,
                                     usage_db=None)
        world = self
        port = port or RELAY_PORT
        if not hasattr(self, "relay_pairs"):
            self.relay_pairs = []    # (protocol, partner protocol) ever glued

        class RecordingTransitConnection(TransitConnection):
            def connect_partner(self_, other):
                world.relay_pairs.append((self_, other._client))
                return TransitConnection.connect_partner(self_, other)
        f = protocol.ServerFactory()
        f.protocol = RecordingTransitConnection
        f.log_requests = False
        f.noisy = False
        f.transit = Transit(usage, self.sim.reactor.seconds)
        self.relay_factory = f
        self.relay_factories.append(f)
        self.sim.reactor.listenTCP(port, f)
        self.relay_url = "tcp:%s:%d" % (RELAY_HOST, port)
        return self.relay_url

    # -- parties -------------------------------------------------------------
    def make(self, name, sender, relay=None, no_listen=False):
        cls = transit.TransitSender if sender else transit.TransitReceiver
        t = cls(relay, no_listen=no_listen, reactor=self.sim.reactor)
        p = Party(self, name, t)
        self.parties.append(p)
        return p

    def hints_of(self, party):
        out = []
        d = party.t.get_connection_hints()
        d.addCallback(out.append)
        if not out:
            raise HarnessError("get_connection_hints did not fire "
                               "synchronously")
        party.hints = out[0]
        return out[0]

    # -- bookkeeping -------------------------------------------------------
    def owner_of_end(self, end):
        """Which party (or 'relay' / 'stranger') is behind this end."""
        if end.role == "c":
            p = unwrap(end.protocol)
            owner = getattr(p, "owner", None)
        else:
            fac = end.link.server_port.factory
            if fac in self.relay_factories:
                return "relay"
            if fac in self.stranger_factories:
                return "stranger"
            owner = getattr(fac, "owner", None)
        for party in self.parties:
            if party.t is owner:
                return party
        if owner is None:
            return "stranger"
        return "other"

    def _end_made(self, end):
        end.rx_log = bytearray()
        end.tx_log = []       # (steps, rx_len_at_that_time, data)
        end.link.tap = self._tap
        self.ends.append(end)
        end.owner = None

    def _tap(self, end, data):
        end.rx_log += data

    def _on_write(self, end, data):
        if hasattr(end, "tx_log"):
            end.tx_log.append((self.sim.steps, len(end.rx_log), data))

    def end_of_connection(self, conn):
        """The simulated End whose protocol is this transit.Connection."""
        for end in self.ends:
            if unwrap(end.protocol) is conn:
                return end
        return None
