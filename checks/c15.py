"""C15 - Dilation back-pressure pauses every producer and never loses a
wake-up."""
from simlib import boot  # noqa: F401
from simlib import runner
from checks import common_c as cc
from worlds.dilation import RecProtocol

from zope.interface import implementer
from twisted.internet.interfaces import IPushProducer, IPullProducer

PROP = "C15"
LEVEL = "exploration"
QUICK_S = 45
THOROUGH_S = 900
TECHNIQUE = ("deterministic simulation with a staged transport (send buffer "
             "drains only when the scheduler says so, per-run high-water mark "
             "1 B .. 1 MB, stalled receivers): seeded interleavings of "
             "producer (un)registration, transport pause/resume arriving "
             "inside producers' turns, subchannel pause/resume/stop requests, "
             "closes and connection replacement; reference model of who must "
             "be paused, checked after every event")
RULE_CROWD = (" A sixth configuration registers a producer on each of 17..30 subchannels a side (mostly producers that write little, so that one drain has to wake them all).")
RULE_BURST = (" In a fifth of the mixed runs an application dumps 1000..1300 small writes on a subchannel in one go (a long un-acked queue while the transport is full).")
RULE = ("One evaluation = one seeded execution of two real Managers with 1-3 "
        "subchannels per side carrying push producers (0, 1 or many writes "
        "per resumeProducing, some unregistering or closing inside their "
        "turn) and pull producers (through the real PullToPush + Cooperator "
        "on the real eventual queue); application pause/resume/stop requests "
        "on the receiving side; stall / cut faults. Non-trivial: the "
        "transport paused the Outbound at least once while a producer was "
        "registered, or an application pause request was made. Distinct: "
        "event-log digests among non-trivial runs.")
RULE += RULE_BURST
RULE += RULE_CROWD
LEVEL_TEXT = ("Seeded exploration. Model: writable := a connection exists, is "
              "alive and its transport's last signal to Outbound is not "
              "pause. After every event: every registered push producer is "
              "paused iff not writable; no producer (push or pull) is ever "
              "resumed/pulled while not writable; with a one-record-per-turn-"
              "then-full regime every producer gets a turn within N drains "
              "(rotation); the L2 transport is read-paused iff at least one "
              "live subchannel's application last asked for a pause, also "
              "right after a replacement connection starts being used. "
              "Outbound._check_invariants doubles as an in-code oracle.")
LEVEL_NOTE = ("The transport contract (pause re-entrantly inside write() when "
              "over the high-water mark, resume when the buffer is empty, "
              "stopProducing on connection loss) follows twisted.internet."
              "abstract.FileDescriptor; DESIGN.md 2.3.")
ASSUMPTIONS = ["own Noise implementation", "simulated transport contract"]
COMPONENTS = {"real": ["_dilation.outbound (Outbound, PullToPush)",
                       "_dilation.inbound", "_dilation.subchannel",
                       "manager/connector/connection", "twisted Cooperator"],
              "stub": ["mailbox (FIFO control channel)", "Noise (own)",
                       "kernel TCP / send buffer (simulated, staged)"]}


class ProdBase:
    def __init__(self, ctx, side, proto, behaviour):
        self.ctx = ctx
        self.side = side
        self.proto = proto
        self.behaviour = behaviour      # writes per turn
        self.signals = []
        self.registered = True
        self.turns = 0
        self.reg_step = ctx.sim.steps
        self.unreg_step = None

    def _write(self, n):
        for i in range(n):
            if self.proto.lost or self.proto.closed_local:
                return
            try:
                self.proto.transport.write(b"P" * self.ctx.recsize)
            except Exception as e:
                # judged at the end of the event: a write that lands inside
                # the library's own processing of the peer's CLOSE (the
                # subchannel is closed, connectionLost is the next thing the
                # application hears) legitimately fails
                self.ctx.write_errors.append((self.proto, repr(e)))
                return


@implementer(IPushProducer)
class PushProd(ProdBase):
    kind = "push"

    def pauseProducing(self):
        self.signals.append("pause")
        self.ctx.sim.ev("prod", self.side.name, id_of(self), "pause")

    def resumeProducing(self):
        self.signals.append("resume")
        self.turns += 1
        self.ctx.turn_log.setdefault(self.side.name, []).append(
            (self.ctx.sim.steps, self))
        self.ctx.sim.ev("prod", self.side.name, id_of(self), "resume")
        if self.ctx.writable(self.side) is False:
            self.ctx.V("C15.resumed_while_unwritable", "no producer is resumed "
                       "until the connection drains",
                       "%s push producer resumed while the transport is "
                       "paused / no connection" % self.side.name)
        self._write(self.behaviour)
        if self.ctx.tape.choose(12, "inturn") == 0 and self.registered:
            self.ctx.unregister(self)

    def stopProducing(self):
        self.signals.append("stop")

    @property
    def paused(self):
        for s in reversed(self.signals):
            if s in ("pause", "resume"):
                return s == "pause"
        return False


@implementer(IPullProducer)
class PullProd(ProdBase):
    kind = "pull"

    def resumeProducing(self):
        self.signals.append("pull")
        self.turns += 1
        self.ctx.sim.ev("prod", self.side.name, id_of(self), "pull")
        if self.ctx.writable(self.side) is False:
            self.ctx.V("C15.pulled_while_unwritable", "no producer is resumed "
                       "until the connection drains",
                       "%s pull producer pulled while the transport is paused "
                       "/ no connection" % self.side.name)
        self._write(1)
        if self.turns >= self.behaviour and self.registered:
            self.ctx.unregister(self)

    def stopProducing(self):
        self.signals.append("stop")


_ids = {}


def id_of(p):
    return _ids.setdefault(id(p), len(_ids))


class Ctx:
    pass


def configs(tier):
    # the fifth: a transport that may hand its data on synchronously, so
    # that the drain signal (resumeProducing) arrives inside the write() that
    # caused the pause, i.e. inside a producer's turn
    return [{"mode": "mixed"}, {"mode": "mixed"}, {"mode": "rotation"},
            {"mode": "inbound"}, {"mode": "mixed", "sync_drain": True},
            # the sixth: a crowd of producers (one on each of 17..30
            # subchannels a side), light load after the drain
            {"mode": "mixed", "crowd": True}]


def run_one(seed, tape, opts):
    _ids.clear()
    mode = opts.get("mode", "mixed")
    w = cc.setup(tape, dict(opts, staged=True,
                            hw=1 if mode == "rotation" else None),
                 relay_ok=False, ping=60.0)
    sim = w.sim
    sim.allow_advance = False
    if mode != "rotation":
        sim.net.high_water = tape.pick((1, 50, 1000, 65536, 1 << 20), "hw2")
    sim.net.window = tape.pick((200, 5000, 1 << 30), "win2")
    if opts.get("sync_drain"):
        sd_budget = [3 + tape.choose(12, "sd_budget")]

        def sync_drain(end):
            if sd_budget[0] <= 0 or tape.choose(2, "sd") == 0:
                return False
            sd_budget[0] -= 1
            return True
        sim.net.sync_drain = sync_drain
    ctx = Ctx()
    ctx.sim, ctx.tape, ctx.w = sim, tape, w
    ctx.recsize = tape.pick((1, 40, 2000), "recsize")
    ctx.turn_log = {}
    ctx.write_errors = []
    viol = []

    def V(key, clause, detail):
        if not viol:
            viol.append({"key": key, "clause": clause, "detail": detail})
    ctx.V = V
    producers = {"A": [], "B": []}

    def cur_end(side):
        c = side.m._connection
        return w.l2_end.get(c) if c is not None else None

    def writable(side):
        e = cur_end(side)
        if e is None:
            return False
        if side.m._outbound._connection is None:
            return False
        if not e.alive:
            # selected after it had already died: Dilation still "has a
            # connection" until connection_lost is processed one turn later.
            # Not judged (the statement speaks of a full buffer or no
            # connection); counted.
            sim.note("probe.using_already_dead_connection")
            return None
        if e.transport.disconnecting:
            # the Manager has asked this connection to close (abandoning /
            # stopping): it is neither "a connection whose buffer drained"
            # nor "no connection" yet. Not judged; counted.
            sim.note("probe.connection_closing")
            if e.sendbuf_len() > sim.net.high_water:
                # ... but a send buffer over the high-water mark is full
                # whoever is or is not registered with the transport
                return False
            return None
        return not e.transport.producerPaused
    ctx.writable = writable

    def unregister(prod):
        prod.registered = False
        prod.unreg_step = sim.steps
        if prod.proto.lost:
            return      # the subchannel is gone; Outbound already dropped it
        try:
            prod.proto.transport.unregisterProducer()
        except Exception as e:
            V("C15.unregister_raised", "unregisterProducer works",
              "%r" % (e,))
    ctx.unregister = unregister
    faults = cc.L2Faults(w, tape, tape.choose(3, "fb") if mode != "rotation"
                         else 0)
    faults.candidate_cuts = False
    for s in w.sides:
        s.start(w.key)
    sim.run(3000, until=w.both_connected, max_time=100)
    if not w.both_connected():
        raise cc.HarnessError("setup: dilation did not connect")
    # subchannels: each side opens 1..3, the peer listens
    for s in w.sides:
        s.listen("data")
    recs = []
    for s in w.sides:
        nsub_ = 1 + tape.choose(3, "nsub")
        if opts.get("crowd"):
            # scale: 17..30 subchannels, each with its own producer
            nsub_ = 17 + tape.choose(14, "nsub_crowd")
        for i in range(nsub_):
            recs.append((s, s.connect("data")))
    sim.run(3000, until=lambda: all(r[1][1] != "pending" for r in recs) and
            all(len([q for q in w.peer_of(s).protocols
                     if q.role == "acceptor" and q.made]) >=
                len([r for r in recs if r[0] is s]) for s in w.sides),
            max_time=100)
    subs = {"A": [], "B": []}
    for s, rec in recs:
        if rec[1] == "ok":
            subs[s.name].append(rec[2])
    acc = {s.name: [q for q in s.protocols if q.role == "acceptor" and q.made]
           for s in w.sides}
    if opts.get("crowd"):
        for s_ in w.sides:
            for p_ in subs[s_.name]:
                prod = PushProd(ctx, s_, p_, tape.pick((0, 0, 1), "beh_c"))
                producers[s_.name].append(prod)
                p_.transport.registerProducer(prod, True)
        sim.note("probe.crowd_of_producers")
    app_paused = {}       # protocol -> bool (application's last request)
    nops = 6 + tape.choose(25, "nops")
    done_ops = [0]
    saw_pause = [0]
    app_pause_reqs = [0]

    # scale: once in a while an application dumps 1000..1300 small writes on
    # a subchannel in one go (acks lag behind: the un-acked queue grows long)
    burst_left = [1 if mode == "mixed" and tape.choose(5, "burst?") == 0
                  else 0]

    def op():
        done_ops[0] += 1
        side = tape.pick(w.sides, "opside")
        mine = subs[side.name]
        if burst_left[0] and done_ops[0] >= 3 and mine and \
                tape.choose(4, "burst_now") == 0:
            p = tape.pick(mine, "burst_p")
            if not p.lost and not p.closed_local:
                burst_left[0] = 0
                sim.note("probe.burst_of_unacked_records")
                sim.ev("op", side.name, "burst")
                for _ in range(1000 + tape.choose(300, "burst_n")):
                    p.transport.write(b"b")
                return
        k = tape.choose(12, "opk") if mode == "mixed" else \
            (tape.pick((0, 1, 0, 1, 3, 20, 7), "opk") if mode == "rotation"
             else 4 + tape.choose(8, "opk"))
        sim.ev("op", side.name, k)
        free = [p for p in mine if not p.lost and not p.closed_local and
                not any(x.registered and x.proto is p
                        for x in producers[side.name])]
        if k in (0, 1) and free:
            p = tape.pick(free, "pp")
            beh = 1 if mode == "rotation" else tape.pick((0, 1, 1, 3), "beh")
            prod = PushProd(ctx, side, p, beh)
            producers[side.name].append(prod)
            try:
                p.transport.registerProducer(prod, True)
            except Exception as e:
                V("C15.register_raised", "registerProducer works", repr(e))
        elif k == 2 and free and mode != "rotation":
            p = tape.pick(free, "pp")
            prod = PullProd(ctx, side, p, 1 + tape.choose(6, "pulln"))
            producers[side.name].append(prod)
            try:
                p.transport.registerProducer(prod, False)
            except Exception as e:
                V("C15.register_raised", "registerProducer works", repr(e))
        elif k == 20:
            # (rotation) a producer somewhere in the waiting line goes away
            regd = [x for x in producers[side.name] if x.registered]
            if regd:
                unregister(tape.pick(regd, "unreg"))
        elif k == 3:
            regd = [x for x in producers[side.name] if x.registered]
            if regd and mode != "rotation":
                unregister(tape.pick(regd, "unreg"))
            elif mine:
                p = tape.pick(mine, "wp")
                if not p.lost and not p.closed_local:
                    p.transport.write(b"W" * ctx.recsize)
        elif k in (4, 5, 6):
            # application on the receiving side asks for pause/resume/stop
            mineacc = [q for q in acc[side.name] if not q.lost]
            if mineacc:
                q = tape.pick(mineacc, "aq")
                what = ("pause", "resume", "stop")[k - 4]
                app_pause_reqs[0] += 1
                # (the request is on record before the call: whatever the
                # application asks for from inside callbacks that the call
                # itself triggers comes later and counts as its last word)
                app_paused[q] = (what == "pause")
                try:
                    getattr(q.transport, what + "Producing")()
                except Exception as e:
                    V("C15.app_%s_raised.%s" % (what, type(e).__name__),
                      "inbound data is paused exactly while an application "
                      "asked for a pause",
                      "subchannel transport.%sProducing() raised %r" %
                      (what, e))
        elif k == 7 and mine:
            p = tape.pick(mine, "cp")
            if not p.lost and not p.closed_local:
                for x in producers[side.name]:
                    if x.proto is p:
                        if x.registered:
                            x.unreg_step = sim.steps
                        x.registered = False
                p.transport.loseConnection()
                p.closed_local = True
        elif k == 8:
            q = [x for x in acc[side.name] if not x.lost and
                 not x.closed_local]
            if q:
                x = tape.pick(q, "acl")
                x.transport.loseConnection()
                x.closed_local = True
                # (a pause request stays in force until the subchannel is
                # really gone, i.e. until its connectionLost)
        elif k == 9:
            # a peer stops draining for a while
            for link in sim.net.links:
                if link.up and link is w.current_link(side):
                    e = tape.pick(link.ends, "stall_end")
                    e.stalled = not e.stalled
                    sim.note("fault.stall" if e.stalled else "fault.unstall")
        else:
            if mine:
                p = tape.pick(mine, "wp")
                if not p.lost and not p.closed_local:
                    p.transport.write(b"W" * ctx.recsize)

    def on_sub_event(side_, p_, kind_, data_):
        # an application that throttles from inside dataReceived (the usual
        # place to do it): the rest of the segment that is being parsed -
        # more DATA, a CLOSE - is still dispatched afterwards
        if mode != "rotation" and kind_ == "data" and p_.role == "acceptor" \
                and not app_paused.get(p_) and not p_.lost and \
                tape.choose(4, "pause_in_cb") == 0:
            app_pause_reqs[0] += 1
            sim.note("probe.pause_from_inside_dataReceived")
            try:
                p_.transport.pauseProducing()
                app_paused[p_] = True
            except Exception as e:
                V("C15.app_pause_raised." + type(e).__name__, "inbound data "
                  "is paused exactly while an application asked for a pause",
                  "pauseProducing() inside dataReceived raised %r" % (e,))
    w.on_sub_event = on_sub_event
    next_op = [0]

    def spaced_op():
        op()
        if mode == "rotation":
            # spread the operations over the rotation instead of front-
            # loading them: producers come and go while others wait
            next_op[0] = sim.steps + tape.choose(120, "opgap")

    def extra():
        if done_ops[0] < nops and not viol and sim.steps >= next_op[0]:
            return [("op", spaced_op)]
        return []
    w.extra_app_events = extra
    sim.fault_events = faults.events

    def oracle():
        if viol:
            return
        while ctx.write_errors:
            proto_, err_ = ctx.write_errors.pop()
            if not (proto_.lost or proto_.closed_local):
                V("C15.write_raised", "a producer may write when resumed",
                  err_)
                return
        for s in w.sides:
            wr = writable(s)
            if wr is None:
                continue
            out = s.m._outbound
            if not wr and any(x.registered for x in producers[s.name]):
                saw_pause[0] += 1
            for x in producers[s.name]:
                if not x.registered or x.kind != "push":
                    continue
                if x.proto.lost:
                    continue
                if x.paused != (not wr):
                    V("C15.push_producer_state", "when the send buffer fills "
                      "or there is no connection every producer is paused; "
                      "when it drains all paused producers are resumed",
                      "%s: writable=%s but push producer %d last signals %r "
                      "(outbound._paused=%s)" %
                      (s.name, wr, id_of(x), x.signals[-3:], out._paused))
                    return
            # inbound
            e = cur_end(s)
            if e is not None and e.alive and s.m._inbound._connection is not \
                    None:
                want = any(v for q, v in app_paused.items()
                           if q.side is s and not q.lost)
                if e.read_paused != want:
                    V("C15.inbound_pause_state", "inbound data is paused "
                      "exactly while at least one subchannel's application "
                      "has asked for a pause (also on a replacement "
                      "connection)",
                      "%s: transport read-paused=%s but applications "
                      "wanting pause: %s" % (s.name, e.read_paused, want))
                    return
    sim.after_step = oracle

    def quiet():
        if done_ops[0] < nops:
            return False
        for link in sim.net.links:
            for e in link.ends:
                if link.up and e.alive and (len(e.sendbuf) or
                                            (len(e.inflight) and
                                             not e.read_paused and
                                             not e.stalled)):
                    return False
        return True
    sim.run(8000, until=lambda: bool(viol) or quiet())
    # release stalls and pauses; everything must drain and everyone resume
    faults.heal()
    for link in sim.net.links:
        for e in link.ends:
            e.stalled = False
    for q in list(app_paused):
        if app_paused[q] and not q.lost:
            try:
                q.transport.resumeProducing()
            except Exception:
                pass
            app_paused[q] = False
    r = sim.run(12000, until=lambda: bool(viol) or (quiet() and
                                                    w.both_connected()),
                max_time=600)
    oracle()
    # lost wake-up for pull producers: with a drained, writable connection a
    # registered pull producer keeps being pulled (ours unregister themselves
    # after a fixed number of turns, so none may remain)

    def pending_pulls():
        return [x for s in w.sides for x in producers[s.name]
                if x.kind == "pull" and x.registered and not x.proto.lost and
                not x.proto.closed_local]
    if not viol and r == "until" and pending_pulls():
        sim.note("probe.pull_producer_pending_at_settle")
        r2 = sim.run(6000, until=lambda: bool(viol) or not pending_pulls(),
                     max_time=600)
        left = pending_pulls()
        if left:
            sim.note("probe.pull_pending_after_wait." + r2)
        if not viol and left and w.both_connected() and \
                all(writable(x.side) for x in left) and \
                r2 in ("idle", "time"):
            x = left[0]
            V("C15.pull_lost_wakeup", "when the connection drains all paused "
              "producers are eventually resumed, each getting a turn",
              "%s: pull producer %d registered on a live subchannel, "
              "connection writable, got %d of %d turns and was not pulled "
              "again until the simulation went idle / 600 s passed; signals "
              "%r" %
              (x.side.name, id_of(x), x.turns, x.behaviour, x.signals[-4:]))
    if not viol and mode == "rotation":
        # round-robin: between two consecutive turns of one producer every
        # other producer that stayed registered (and paused) all along gets
        # a turn of its own
        for sname, log in ctx.turn_log.items():
            last = {}
            for idx, (st, x) in enumerate(log):
                if x in last:
                    i0, st0 = last[x]
                    between = set(y for _, y in log[i0 + 1:idx])
                    for y in producers[sname]:
                        if y is x or y.kind != "push" or y in between:
                            continue
                        if y.reg_step < st0 and (y.unreg_step is None or
                                                 y.unreg_step > st) and \
                                not (y.proto.lost and y.unreg_step is None):
                            V("C15.rotation_unfair", "when the connection "
                              "drains all paused producers are eventually "
                              "resumed, each getting a turn",
                              "%s: producer %d had turns at events %d and %d "
                              "while producer %d, registered since event %d "
                              "and paused all along, had none in between "
                              "(order of turns %r)" %
                              (sname, id_of(x), st0, st, id_of(y), y.reg_step,
                               [id_of(z) for _, z in log][:16]))
                            break
                    if viol:
                        break
                last[x] = (idx, st)
            if viol:
                break
    if not viol and r == "until" and mode == "rotation":
        for s in w.sides:
            regd = [x for x in producers[s.name] if x.registered and
                    not x.proto.lost]
            if len(regd) >= 2:
                t = [x.turns for x in regd]
                if max(t) - min(t) > 1 + max(t) // 2 and min(t) == 0:
                    V("C15.rotation", "when the connection drains all paused "
                      "producers are eventually resumed, each getting a turn",
                      "%s: turns per producer %r" % (s.name, t))
    if not viol and r != "until":
        sim.note("settle_incomplete")
    w.finish()
    for etype, text, why in w.log.errors:
        sim.note("logged." + etype)
        if etype == "AssertionError":
            V("C15.invariant_assertion", "Outbound._check_invariants holds",
              text[:200])
    nontrivial = saw_pause[0] > 0 or app_pause_reqs[0] > 0
    if saw_pause[0]:
        sim.note("probe.paused_with_registered_producer")
    return {"violation": viol[0] if viol else None, "nontrivial": nontrivial,
            "digest": sim.hexdigest(), "trace": sim.trace,
            "stats": {"steps": sim.steps, "sim_s": sim.now() - 1000.0,
                      "notes": sim.notes},
            "sample": {"seed": seed, "mode": mode,
                       "high_water": sim.net.high_water,
                       "window": sim.net.window, "ops": done_ops[0],
                       "producers": {n: [(x.kind, x.behaviour, x.turns,
                                          x.signals[-4:])
                                         for x in producers[n]][:6]
                                     for n in producers},
                       "faults": faults.fired[:4]}}


if __name__ == "__main__":
    import sys
    sys.exit(runner.main(sys.modules[__name__]))
