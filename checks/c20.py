"""C20 - peer connection hints are untrusted: never a crash, only valid hints
dialled."""
import json

from simlib import boot  # noqa: F401
from simlib import runner
from simlib.core import HarnessError
from worlds.transit import TransitWorld
from checks import hintgen

PROP = "C20"
LEVEL = "exploration"
QUICK_S = 40
THOROUGH_S = 600
TECHNIQUE = ("deterministic simulation with a Byzantine peer: generated hint "
             "lists (random JSON objects and field-wise mutations of valid "
             "hints) fed through Transit.add_connection_hints()+connect() and "
             "through the dilation connection-hints message; the simulated "
             "reactor is the observation point for what gets dialled")
RULE = ("One evaluation = one seeded execution in which the peer's hint list "
        "is generated from the tape (junk objects, each field of a valid "
        "direct/relay hint missing or of the wrong JSON type, huge/negative "
        "ports, non-numeric/unhashable/mixed priorities, relay entries "
        "without or with malformed sub-hints) and always contains at least "
        "one valid hint to a live listener. This property is quantified over "
        "inputs only; the simulator supplies the end-to-end path and records "
        "every connectTCP. Non-trivial: the list contained at least one "
        "malformed entry. Distinct: event-log digests among non-trivial runs "
        "(plus distinct generated lists counted separately).")
RULE += (' Dilation half: also hint lists around a forced reconnect, and (1/4 of runs) mutually unreachable peers with hint lists spread over gaps of 0..30 simulated seconds.')
RULE += (" In half of the Dilation runs one side does not listen at all, so (re)connecting depends on the other side's hints alone.")
RULE += (' late_relay runs also require every list naming the (refusing) relay to lead to a dial by its receiver.')
RULE += (' A third configuration runs the Dilation half on a server that does not keep the order of stored messages.')
LEVEL_TEXT = ("Seeded exploration over generated inputs. Oracle: no exception "
              "escapes add_connection_hints()/connect() (transit) or "
              "received_dilation_message (dilation); the wormhole/transfer "
              "is not aborted: the valid hint still yields a connection; the "
              "set of (host, port) dialled is a subset of the hints with "
              "string hostname, integer port and supported type; hints this "
              "side produces parse back on the peer into the same targets.")
LEVEL_NOTE = ("JSON `true`/`false` are not integers: a hint whose port is a "
              "boolean must not be dialled. Top-level list entries are JSON "
              "objects, as the statement says.")
ASSUMPTIONS = ["simulated TCP; every connectTCP is recorded"]
COMPONENTS = {"real": ["wormhole._hints", "wormhole.transit", "wormhole."
                       "_dilation.manager/connector (dilation half)"],
              "stub": ["kernel TCP", "Noise (own implementation, dilation "
                       "half)"]}


def configs(tier):
    # the third: the dilation half on a mailbox server that does not keep
    # the order of the stored messages (hint lists overtake each other and
    # the 'please' message)
    return [{"half": "transit"}, {"half": "dilation"},
            {"half": "dilation", "reorder_heavy": True}]


def run_transit(seed, tape, opts):
    w = TransitWorld(tape, opts)
    sim = w.sim
    sim.allow_advance = False
    victim_is_sender = tape.choose(2, "victim") == 0
    V_ = w.make("V", victim_is_sender, no_listen=True)
    P_ = w.make("P", not victim_is_sender, no_listen=False)
    V_.t.set_transit_key(w.key)
    P_.t.set_transit_key(w.key)
    w.hints_of(V_)        # the CLI always asks for its own hints first
    good = [h for h in w.hints_of(P_) if h["type"] == "direct-tcp-v1"]
    if not good:
        raise HarnessError("peer has no direct hint")
    bogus = ("10.9.9.7", 4242)
    sim.net.host_mode["10.9.9.7"] = "refuse"
    hints = hintgen.gen_hint_list(tape, good, bogus)
    # what travels is JSON
    hints = json.loads(json.dumps(hints))
    viol = []

    def Vio(key, clause, detail):
        if not viol:
            viol.append({"key": key, "clause": clause, "detail": detail})
    try:
        V_.t.add_connection_hints(hints)
    except Exception as e:
        Vio("C20.transit.add_connection_hints.%s" % type(e).__name__,
            "handling peer hints never raises",
            "add_connection_hints(%s) raised %r" % (json.dumps(hints)[:300], e))
    if not viol:
        try:
            V_.connect()
            P_.connect()
        except Exception as e:
            Vio("C20.transit.connect_raised.%s" % type(e).__name__,
                "handling peer hints never raises", repr(e))
    if not viol:
        sim.run(4000, until=lambda: V_.result and P_.result, max_time=200)
        allowed = hintgen.expected_targets(hints)
        for (host, port) in sim.net.dial_log:
            if (host, port) not in allowed:
                sub = "bool_port" if isinstance(port, bool) else "other"
                Vio("C20.transit.dialled_invalid.%s" % sub,
                    "only hints with a string hostname and integer port of a "
                    "supported type become connection attempts",
                    "dialled %r:%r; hints %s" % (host, port,
                                                 json.dumps(hints)[:300]))
        if V_.result is None or V_.result[0] != "ok":
            f = V_.result[1] if V_.result else None
            Vio("C20.transit.transfer_aborted.%s" %
                (f.type.__name__ if f else "hang"),
                "malformed hints never abort the transfer: the valid hint "
                "still leads to a connection",
                "connect() -> %r; hints %s" % (f.value if f else None,
                                               json.dumps(hints)[:300]))
        for etype, text, why in w.log.errors:
            if why and str(why).startswith("sim: exception"):
                Vio("C20.transit.escaped.%s" % etype, "handling peer hints "
                    "never raises", "%s: %s" % (etype, text[:200]))
            elif etype in ("TypeError", "AttributeError", "KeyError",
                           "ValueError"):
                sim.note("probe.logged_by_errback." + etype)
    # round trip of our own hints
    if not viol:
        mine = w.hints_of(P_)
        w2 = None
        targets = hintgen.expected_targets(json.loads(json.dumps(mine)))
        want = set((h["hostname"], h["port"]) for h in mine
                   if h["type"] == "direct-tcp-v1")
        if targets != want:
            Vio("C20.transit.roundtrip", "hints this side produces are parsed "
                "back by the peer into the same targets", "%r vs %r" %
                (sorted(targets), sorted(want)))
    w.finish()
    malformed = len(hints) > len(good)
    return {"violation": viol[0] if viol else None, "nontrivial": malformed,
            "digest": sim.hexdigest(), "trace": sim.trace,
            "stats": {"steps": sim.steps, "sim_s": sim.now() - 1000.0,
                      "notes": sim.notes,
                      "extra": {"distinct_hint_lists":
                                [hash(json.dumps(hints, sort_keys=True))]}},
            "sample": {"seed": seed, "half": "transit", "hints": hints[:6],
                       "dialled": sim.net.dial_log[:8],
                       "result": None if V_.result is None else V_.result[0]}}


def run_one(seed, tape, opts):
    if opts.get("half", "transit") == "transit":
        return run_transit(seed, tape, opts)
    from checks import c20_dilation
    return c20_dilation.run_dilation(seed, tape, opts)


if __name__ == "__main__":
    import sys
    sys.exit(runner.main(sys.modules[__name__]))
