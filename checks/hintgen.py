"""Generator of peer-controlled hint lists for C20 (both halves)."""

SCALARS = (None, True, False, 0, 1, -1, 65536, 2 ** 40, 1.5, "", "x", "0",
           "direct-tcp-v1", "relay-v1", "tor-tcp-v1")


def junk_value(tape, depth=0):
    k = tape.choose(8 if depth < 2 else 5, "jv")
    if k < 5:
        return tape.pick(SCALARS, "js")
    if k == 5:
        return [junk_value(tape, depth + 1)
                for _ in range(tape.choose(3, "jl"))]
    if k == 6:
        return {tape.pick(("type", "hostname", "port", "priority", "hints",
                           "x"), "jk"): junk_value(tape, depth + 1)
                for _ in range(tape.choose(3, "jd"))}
    return tape.pick(("h.example", "10.1.0.1", "ü.example"), "jh")


def valid_direct(host, port, prio=0.0):
    return {"type": "direct-tcp-v1", "priority": prio, "hostname": host,
            "port": port}


ODD_HOSTS = ("", " ", "a b", "\u0000", "x" * 300, "[::1]", "::1",
             "999.999.999.999", "-", ".", "..", "ü.example", "host\n",
             "10.1.0.1 ", "0", "localhost")
ODD_PORTS = (0, -1, 65535, 65536, 10 ** 12, -70000, 10 ** 400)
# (JSON numbers have no size limit: 10**400 is an int too large for a float;
# Python's json also reads Infinity / NaN)
ODD_PRIOS = (-1, 1e308, -0.0, 10 ** 30, 3, 10 ** 400, -(10 ** 400), 2 ** 1024,
             float("inf"), float("-inf"), float("nan"), 5e-324)


def mutate_direct(tape, base):
    h = dict(base)
    field = tape.pick(("type", "priority", "hostname", "port"), "mf")
    how = tape.choose(4, "mh")
    if how == 0:
        del h[field]
    elif how == 3 and field != "type":
        h[field] = tape.pick({"hostname": ODD_HOSTS, "port": ODD_PORTS,
                              "priority": ODD_PRIOS}[field], "odd")
    else:
        h[field] = junk_value(tape)
    return h


def mutate_relay(tape, sub_base):
    k = tape.choose(8, "mr")
    if k == 7:
        # a relay reachable in several ways: valid sub-hints of both types,
        # with equal or different priorities
        subs = [dict(sub_base, priority=tape.pick((0.0, 1, 2.5), "rp1")),
                dict(sub_base, type="tor-tcp-v1",
                     priority=tape.pick((0.0, 1, 2.5), "rp2"))]
        if tape.choose(2, "rswap"):
            subs.reverse()
        return {"type": "relay-v1", "hints": subs}
    if k == 0:
        return {"type": "relay-v1"}                       # no "hints"
    if k == 1:
        return {"type": "relay-v1", "hints": junk_value(tape)}
    if k == 2:
        return {"type": "relay-v1",
                "hints": [junk_value(tape) for _ in range(1 + tape.choose(
                    3, "nr"))]}
    if k == 3:
        return {"type": "relay-v1",
                "hints": [mutate_direct(tape, sub_base),
                          mutate_direct(tape, sub_base)]}
    if k == 4:
        return {"type": "relay-v1",
                "hints": [dict(sub_base, priority=junk_value(tape)),
                          dict(sub_base, priority=junk_value(tape))]}
    if k == 5:
        return {"type": "relay-v1", "hints": [sub_base, None, 3, "x"]}
    return {"type": junk_value(tape), "hints": [sub_base]}


def gen_hint_list(tape, valid, bogus_target):
    """A list of JSON objects: generated junk + mutations of valid hints, with
    the `valid` hints mixed in at tape-chosen positions."""
    out = []
    for _ in range(1 + tape.choose(5, "nh")):
        k = tape.choose(6, "hk")
        if k == 0:
            v = junk_value(tape)
            out.append(v if isinstance(v, dict) else {"type": v})
        elif k in (1, 2):
            out.append(mutate_direct(tape, valid_direct(*bogus_target)))
        elif k in (3, 4):
            out.append(mutate_relay(tape, valid_direct(*bogus_target)))
        else:
            out.append({"type": tape.pick(("tor-tcp-v1", "direct-tcp-v2",
                                           "relay-v2", ""), "ut"),
                        "hostname": bogus_target[0], "port": bogus_target[1],
                        "priority": 0.0})
    for v in valid:
        out.insert(tape.choose(len(out) + 1, "vp"), v)
    # twins of the *valid* hints with one field changed (same host and port,
    # another type / priority type): before or after the original
    for v in list(valid):
        if isinstance(v, dict) and tape.choose(3, "twin") == 0:
            t = dict(v)
            f = tape.pick(("type", "type", "priority", "port"), "twf")
            if f == "type":
                t["type"] = tape.pick(("tor-tcp-v1", "direct-tcp-v2",
                                       "relay-v1", None), "twt")
            elif f == "priority":
                t["priority"] = junk_value(tape)
            else:
                t["port"] = tape.pick(ODD_PORTS, "twp")
            i = out.index(v) if v in out else len(out)
            out.insert(i if tape.choose(2, "twpos") == 0 else i + 1, t)
    return out


def expected_targets(hints, tor=False):
    """(host, port) pairs that may legitimately be dialled for this list:
    string hostname, integer (not bool) port, supported type."""
    out = set()

    def direct(h):
        if not isinstance(h, dict):
            return
        if h.get("type") != "direct-tcp-v1":
            return
        host, port = h.get("hostname"), h.get("port")
        if isinstance(host, str) and isinstance(port, int) and \
                not isinstance(port, bool):
            out.add((host, port))
    for h in hints:
        if not isinstance(h, dict):
            continue
        if h.get("type") == "relay-v1":
            sub = h.get("hints")
            if isinstance(sub, list):
                for x in sub:
                    direct(x)
        else:
            direct(h)
    return out
