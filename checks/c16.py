"""C16 - the Leader replaces a silent peer connection and never drops a
responsive one."""
from simlib import boot  # noqa: F401
from simlib import runner
from simlib.core import HarnessError
from wormhole._dilation.roles import LEADER
from checks import common_c as cc

PROP = "C16"
LEVEL = "exploration"
QUICK_S = 40
THOROUGH_S = 900
TECHNIQUE = ("deterministic simulation on a virtual clock: ping interval drawn "
             "per run, the Follower->Leader direction stalled / released on a "
             "tape-chosen timeline (pong latency relative to the interval), "
             "loss and stop at any time; timing oracle on the simulated clock "
             "only where the property itself states a deadline")
RULE = ("One evaluation = one seeded execution of two real Managers (the "
        "Leader monitored) with ping interval from {0.5,1,5,30,60} s and one "
        "regime: responsive (pong latency drawn strictly below one interval, "
        "incl. just under), silent from a drawn time on (before the first "
        "pong, after k pongs, between ping and pong), slow (latency above two "
        "intervals), with an optional loss or stop at a drawn time; and "
        "reconnect_silent: the first connection is cut at a drawn time, a "
        "replacement is negotiated and the peer goes silent on it; one_way: "
        "from a drawn time nothing the Leader sends arrives (pings "
        "unanswered) while the Follower's data records keep arriving every "
        "drawn gap; bulk_reconnect: bandwidth-limited path (token bucket "
        "in simulated time), 0.5-1 MB un-acked at a loss, re-sent on the "
        "replacement over 1.3-3 intervals with the transport pausing the "
        "Outbound, peer answering at once; pause_reconnect: the "
        "Leader's application pauses its subchannel, the connection is "
        "lost, the application resumes before the loss / in the gap / after "
        "the replacement is up; many_reconnects: 2..6 losses (cut or silence) "
        "in one session, then a responsive or a silent final connection; "
        "silent with a long path: every pong takes 0.2..0.98 of the interval "
        "(constant propagation delay), silence after some answered pings. "
        "Non-trivial: at least one ping/pong round trip happened and (a "
        "stall window was applied or a drop/stop occurred). Distinct: "
        "event-log digests among non-trivial runs.")
RULE += (" Regime loss_at_selection: the link dies in the turn in which it is being selected (after the peer's KCM was read, before the Manager hears of the connection).")
RULE += (' Regime stop_bulk: stop() while a backlog drains over a slow path (the graceful close takes several intervals).')
LEVEL_TEXT = ("Seeded exploration of timings. Let t* be the last time the "
              "Leader received anything on the connection (or the time it "
              "started using it). Silent peer: the Leader has dropped the "
              "connection by t* + 3 intervals and starts a new generation "
              "(RECONNECT sent). Responsive peer (every pong in strictly less "
              "than one interval): the monitor never drops it. After a loss "
              "or stop no ping timer is pending; after the next connection "
              "pings resume.")
LEVEL_NOTE = ("'Dropped' is observed at the simulated transport (abort/close "
              "requested by the Leader). Manager._timer is read as the "
              "observation point for 'no ping timer pending'.")
ASSUMPTIONS = ["own Noise implementation", "control channel FIFO per sender"]
COMPONENTS = {"real": ["_dilation.manager (TrafficTimer, ping bookkeeping)",
                       "connector/connection/outbound"],
              "stub": ["mailbox (FIFO control channel)", "Noise (own)",
                       "kernel TCP"]}

INTERVALS = (0.5, 1.0, 5.0, 30.0, 60.0)


def configs(tier):
    return [{"regime": r} for r in ("responsive", "silent", "slow",
                                    "responsive", "silent", "stop", "loss",
                                    "reconnect_silent", "one_way",
                                    "bulk_reconnect", "pause_reconnect",
                                    "many_reconnects",
                                    "loss_at_selection", "stop_bulk")] + \
        [{"regime": "silent", "latent": True}]


def _loss_at_selection(seed, tape, opts, interval):
    """The link dies in the very turn in which it is being selected: after a
    side has seen the peer's key confirmation (the Connector has queued its
    accept) and before the Manager is told about the connection. The loss is
    reported all the same - the Leader must not sit on a dead connection with
    its monitor idle: a new generation is started and ends up connected."""
    w = cc.setup(tape, dict(opts, staged=False), relay_ok=False, ping=interval)
    sim = w.sim
    sim.weights["advance"] = 0
    losses = [1 + tape.choose(2, "sel_losses")]
    which = tape.pick(("leader", "follower", "either"), "sel_side")
    done = []

    def hook():
        if losses[0] <= 0:
            return
        for s in w.sides:
            if s.role is None or s.m is None:
                continue
            if which == "leader" and s.role is not LEADER:
                continue
            if which == "follower" and s.role is LEADER:
                continue
            c = getattr(s.m, "_connector", None)
            if c is None or s.m._connection is not None:
                continue
            for p in list(getattr(c, "_contenders", ())):
                e = w.l2_end.get(p)
                if e is not None and e.link.up and e.link not in done:
                    done.append(e.link)
                    losses[0] -= 1
                    sim.ev("loss_at_selection", s.name)
                    sim.note("fault.cut_in_selection_turn")
                    sim.net.cut(e.link, tape.pick((("c", "s"), ("c", "s"),
                                                   ("c",), ("s",)), "seltell"))
                    return
    sim.after_step = hook
    for s in w.sides:
        s.start(w.key)
    t0 = sim.now()

    def settled():
        return losses[0] <= 0 and w.both_connected()
    sim.run(40000, until=settled, max_time=12 * interval)
    for l in done:
        sim.net.reveal(l)
    sim.run(40000, until=w.both_connected, max_time=8 * interval)
    viol = []
    if done and not w.both_connected():
        L, F = w.leader, w.follower
        viol.append({"key": "C16.no_replacement_after_loss", "clause": "a "
                     "connection that is lost (or on which the other side "
                     "stops answering) is dropped and a new generation is "
                     "started - across loss at any time",
                     "detail": "interval %.1f: %d link(s) lost in the turn in "
                     "which they were being selected (%s side); %.1f s later "
                     "the sides are not connected: Leader connection %s "
                     "(transport alive: %s, ping timer pending: %s), Follower "
                     "connection %s" %
                     (interval, len(done), which, sim.now() - t0,
                      L.m._connection is not None,
                      L.m._connection is not None and
                      w.l2_end[L.m._connection].alive, _timer_pending(L.m),
                      F.m._connection is not None)})
    w.finish()
    return {"violation": viol[0] if viol else None, "nontrivial": bool(done),
            "digest": sim.hexdigest(), "trace": sim.trace,
            "stats": {"steps": sim.steps, "sim_s": sim.now() - 1000.0,
                      "notes": sim.notes},
            "sample": {"seed": seed, "regime": "loss_at_selection",
                       "interval": interval, "lost_links": len(done),
                       "side": which}}


def run_one(seed, tape, opts):
    regime = opts.get("regime", "silent")
    interval = tape.pick(INTERVALS, "interval")
    if regime == "loss_at_selection":
        return _loss_at_selection(seed, tape, opts, interval)
    w = cc.setup(tape, dict(opts, staged=False), relay_ok=False, ping=interval)
    sim = w.sim
    sim.weights["advance"] = 0      # time moves only when nothing else can
    for s in w.sides:
        s.start(w.key)
    sim.run(3000, until=w.both_connected, max_time=10 * interval)
    if not w.both_connected():
        raise HarnessError("setup: no connection")
    L, F = w.leader, w.follower
    t_conn = sim.now()
    first_conn = L.m._connection
    eL = w.l2_end[first_conn]
    viol = []

    def V(key, clause, detail):
        if not viol:
            viol.append({"key": key, "clause": clause, "detail": detail})
    rx_times = [t_conn]
    eL.link.tap = lambda end, data: rx_times.append(sim.now()) \
        if end is eL else None
    drop_time = [None]
    stopped = [False]
    pings = [0]

    def watch():
        if drop_time[0] is None and (not eL.alive or
                                     eL.transport.disconnecting):
            drop_time[0] = sim.now()
            sim.ev("leader_dropped")
        n = len(L.m._pings_outstanding)
        pings[0] = max(pings[0], n)
    sim.after_step = watch
    R = sim.reactor
    horizon = 8 * interval
    stall_windows = []
    silent_at = None
    if regime == "responsive":
        # every window strictly shorter than one interval => every pong
        # arrives in less than one interval
        t = 0.0
        while t < horizon:
            gap = interval * tape.pick((0.1, 0.5, 1.0, 2.3), "gap")
            d = interval * tape.pick((0.0, 0.1, 0.5, 0.9, 0.99), "dur")
            if d > 0:
                stall_windows.append((t + gap, d))
            t += gap + d
    elif regime in ("silent", "stop"):
        silent_at = interval * tape.pick((0.0, 0.3, 0.99, 1.0, 1.01, 1.5, 2.2,
                                          3.7, 5.0), "silent_at")
        if opts.get("latent"):
            # a long path: every pong takes a drawn fraction of the interval
            # (the same on every ping), then the peer goes silent
            rtt = interval * tape.pick((0.2, 0.3, 0.5, 0.7, 0.9, 0.98), "rtt")
            eL.link.latency = rtt / 2
            silent_at = interval * tape.pick((1.99, 2.5, 3.3, 4.6, 5.2),
                                             "silent_at2")
            sim.note("probe.constant_path_latency")
    elif regime == "slow":
        silent_at = interval * tape.pick((0.2, 1.0, 1.7, 3.1), "slow_at")
        stall_windows.append((silent_at,
                              interval * tape.pick((2.01, 2.5, 4.0), "slowd")))
        silent_at = None

    def set_stall(v):
        if eL.alive:
            eL.stalled = v
            sim.ev("stall" if v else "unstall")
            sim.note("fault.stall" if v else "fault.unstall")
    for (at, d) in stall_windows:
        R.callLater(at, set_stall, True)
        R.callLater(at + d, set_stall, False)
    if silent_at is not None and regime != "stop":
        R.callLater(silent_at, set_stall, True)
    stop_at = None
    if regime == "stop":
        stop_at = interval * tape.pick((0.1, 0.9, 1.5, 2.5), "stop_at")

        def do_stop():
            stopped[0] = True
            sim.ev("stop")
            L.m.stop()
        R.callLater(stop_at, do_stop)
    if regime == "loss":
        # the connection is lost and (the control channel being down) no
        # replacement can be negotiated: monitoring must be quiet meanwhile
        loss_at = interval * tape.pick((0.2, 1.0, 1.5, 2.7), "loss_at")

        def do_loss():
            w.ctl_paused = True
            sim.ev("loss")
            sim.note("fault.cut")
            sim.net.cut(eL.link, tape.pick((("c", "s"), ("c",), ("s",)),
                                           "tell"))
        R.callLater(loss_at, do_loss)
    cut_at = None
    if regime in ("responsive",) and tape.choose(4, "cut?") == 0:
        cut_at = interval * tape.pick((0.5, 1.5, 3.2), "cut_at")

        def do_cut():
            if eL.link.up:
                sim.ev("cut")
                sim.note("fault.cut")
                sim.net.cut(eL.link)
        R.callLater(cut_at, do_cut)
    if regime == "many_reconnects":
        return _many_reconnects(seed, tape, w, interval, first_conn, eL,
                                t_conn)
    if regime == "pause_reconnect":
        return _pause_reconnect(seed, tape, w, interval, first_conn, eL, t_conn)
    if regime == "bulk_reconnect":
        return _bulk_reconnect(seed, tape, w, interval, first_conn, eL, t_conn)
    if regime == "stop_bulk":
        return _stop_bulk(seed, tape, w, interval, first_conn, eL, t_conn)
    if regime == "one_way":
        return _one_way(seed, tape, w, interval, first_conn, eL, t_conn)
    if regime == "reconnect_silent":
        return _reconnect_silent(seed, tape, w, interval, first_conn, eL,
                                 t_conn)
    sim.run(20000, max_time=horizon + 1)
    watch()
    adopted = [None, 0.0]
    if regime == "silent" and drop_time[0] is not None:
        # the path is fine for new connections: the next generation's
        # connection must be taken into use by the Leader as well
        sim.run(20000, until=lambda: L.m._connection not in
                (None, first_conn) and F.m._connection is not None,
                max_time=4 * interval)
        if F.m._connection is not None and L.m._connection is None:
            adopted[0], adopted[1] = False, sim.now() - drop_time[0]
    w.finish()
    t_last = max(x for x in rx_times)
    if regime == "silent":
        lim = t_last + 3 * interval + 1e-6
        if drop_time[0] is None:
            V("C16.silent_not_dropped", "a connection on which the other side "
              "stops answering is dropped by the Leader no later than the "
              "second timer expiry after the last answered ping",
              "interval %.1f: silent from t+%.2f, last traffic at t+%.2f, not "
              "dropped by t+%.2f" % (interval, silent_at, t_last - t_conn,
                                     sim.now() - t_conn))
        elif drop_time[0] > lim:
            V("C16.silent_dropped_late", "dropped under three ping intervals "
              "after the last answered ping",
              "interval %.1f: last traffic t+%.2f, dropped t+%.2f" %
              (interval, t_last - t_conn, drop_time[0] - t_conn))
        elif L.m._next_dilation_generation < 2 or not any(
                b'"reconnect"' in pt for ph, pt in L.send.sent):
            V("C16.no_new_generation", "after dropping a silent connection a "
              "new generation is started",
              "generation counter %d, messages %r" %
              (L.m._next_dilation_generation, [ph for ph, _ in L.send.sent]))
        elif adopted[0] is False:
            V("C16.replacement_not_adopted", "a new generation is started "
              "(and monitoring resumes on the next connection)",
              "interval %.1f: the monitor dropped the silent connection; %.1f "
              "s later the Follower is connected again but the Leader has no "
              "connection in use" % (interval, adopted[1]))
    elif regime == "slow":
        if drop_time[0] is None:
            V("C16.slow_not_dropped", "a peer that does not answer for more "
              "than two intervals is dropped", "interval %.1f windows %r" %
              (interval, stall_windows))
    elif regime == "responsive":
        if drop_time[0] is not None and cut_at is None:
            V("C16.responsive_dropped", "a connection whose peer answers every "
              "ping within one interval is never dropped by the monitor",
              "interval %.1f: dropped at t+%.2f although every stall window "
              "%r was shorter than one interval" %
              (interval, drop_time[0] - t_conn,
               [(round(a, 2), round(d, 2)) for a, d in stall_windows][:6]))
        if cut_at is not None and not viol:
            # after the loss a new connection comes up and pings resume
            c2 = L.m._connection
            if c2 is not None and c2 is not first_conn and \
                    not _timer_pending(L.m) and w.l2_end[c2].alive:
                V("C16.monitor_not_resumed", "monitoring resumes on the next "
                  "connection", "new connection but no ping timer pending")
    if regime == "loss" and not viol:
        if L.m._connection is None:
            n0 = len(L.m._pings_outstanding)
            sim.run(2000, max_time=3 * interval)
            if len(L.m._pings_outstanding) > n0:
                V("C16.pings_without_connection", "monitoring stops when the "
                  "connection is lost", "%d more pings were issued with no "
                  "connection" % (len(L.m._pings_outstanding) - n0))
        else:
            sim.note("probe.loss_not_noticed_by_leader_yet")
    if not viol:
        # no ping timer while there is no connection / after stop
        if L.m._connection is None and _timer_pending(L.m):
            V("C16.timer_after_loss", "monitoring stops when the connection "
              "is lost", "no connection but a ping timer is pending")
        if stopped[0]:
            if _timer_pending(L.m):
                V("C16.timer_after_stop", "monitoring stops when dilation is "
                  "stopped", "ping timer still pending after stop()")
    nontrivial = len(rx_times) > 2 and (bool(stall_windows) or
                                        drop_time[0] is not None or stopped[0]
                                        or silent_at is not None)
    return {"violation": viol[0] if viol else None, "nontrivial": nontrivial,
            "digest": sim.hexdigest(), "trace": sim.trace,
            "stats": {"steps": sim.steps, "sim_s": sim.now() - 1000.0,
                      "notes": sim.notes},
            "sample": {"seed": seed, "regime": regime, "interval": interval,
                       "silent_at": silent_at,
                       "stall_windows": [(round(a, 2), round(d, 2))
                                         for a, d in stall_windows][:6],
                       "stop_at": stop_at, "cut_at": cut_at,
                       "last_traffic": round(t_last - t_conn, 3),
                       "dropped_at": None if drop_time[0] is None else
                       round(drop_time[0] - t_conn, 3)}}


def _timer_pending(m):
    return m._timer is not None and m._timer.active()


def _many_reconnects(seed, tape, w, interval, first_conn, eL, t_conn):
    """A long session: the connection is lost several times for outside
    reasons (at drawn moments, also while a ping is unanswered) or because
    the peer went silent, each time a replacement comes up; the last one has
    a responsive peer and must be kept - and a silent one still dropped."""
    sim = w.sim
    L, F = w.leader, w.follower
    R = sim.reactor
    viol = []
    nloss = 2 + tape.choose(5, "nloss")
    cur = first_conn
    history = []
    for i in range(nloss):
        e = w.l2_end[cur]
        how = tape.pick(("cut", "cut", "silence"), "how")
        wait = interval * tape.pick((0.1, 0.6, 1.05, 1.5), "lwait")
        sim.run(20000, max_time=wait)
        if how == "cut":
            if e.link.up:
                sim.net.cut(e.link)
                sim.note("fault.cut")
        else:
            e.stalled = True
            sim.note("fault.stall")
        history.append((how, round(sim.now() - t_conn, 2)))
        prev = cur

        def replaced(prev=prev):
            c = L.m._connection
            return c is not None and c is not prev and w.both_connected()
        sim.run(40000, until=replaced, max_time=5 * interval)
        if not replaced():
            w.finish()
            viol.append({"key": "C16.no_replacement_after_loss", "clause":
                         "the Leader replaces a lost / silent connection: a "
                         "new generation is started",
                         "detail": "interval %.1f: after loss #%d (%s) no "
                         "replacement within 5 intervals; history %r" %
                         (interval, i + 1, how, history)})
            break
        cur = L.m._connection
    dropped = [None]
    if not viol:
        e = w.l2_end[cur]
        t2 = sim.now()
        final = tape.pick(("responsive", "responsive", "silent"), "final")
        if final == "silent":
            e.stalled = True

        def watch():
            if dropped[0] is None and (not e.alive or
                                       e.transport.disconnecting):
                dropped[0] = sim.now()
        sim.after_step = watch
        sim.run(40000, until=lambda: dropped[0] is not None,
                max_time=5 * interval)
        watch()
        w.finish()
        if final == "responsive" and dropped[0] is not None:
            viol.append({"key": "C16.responsive_dropped_after_reconnects",
                         "clause": "a connection whose peer answers every "
                         "ping within one interval is never dropped by the "
                         "monitor", "detail": "interval %.1f: after %d losses "
                         "%r the responsive replacement was dropped %.2f s "
                         "after it was selected" %
                         (interval, nloss, history, dropped[0] - t2)})
        if final == "silent" and (dropped[0] is None or
                                  dropped[0] > t2 + 3 * interval + 1e-6):
            viol.append({"key": "C16.silent_not_dropped_after_reconnects",
                         "clause": "a connection on which the other side "
                         "stops answering is dropped under three ping "
                         "intervals", "detail": "interval %.1f: after %d "
                         "losses %r the silent replacement was %s" %
                         (interval, nloss, history, "never dropped" if
                          dropped[0] is None else "dropped after %.2f s" %
                          (dropped[0] - t2))})
    return {"violation": viol[0] if viol else None, "nontrivial": True,
            "digest": sim.hexdigest(), "trace": sim.trace,
            "stats": {"steps": sim.steps, "sim_s": sim.now() - 1000.0,
                      "notes": sim.notes},
            "sample": {"seed": seed, "regime": "many_reconnects",
                       "interval": interval, "losses": history,
                       "dropped_at": None if dropped[0] is None else
                       round(dropped[0], 3)}}


def _no_replacement(sim, seed, regime, interval, what):
    return {"violation": {"key": "C16.no_replacement_after_loss", "clause":
                          "the Leader replaces a lost / silent connection: a "
                          "new generation is started",
                          "detail": "interval %.1f, %s: %s" %
                          (interval, regime, what)},
            "nontrivial": True, "digest": sim.hexdigest(), "trace": sim.trace,
            "stats": {"steps": sim.steps, "sim_s": sim.now() - 1000.0,
                      "notes": sim.notes},
            "sample": {"seed": seed, "regime": regime, "interval": interval}}


def _pause_reconnect(seed, tape, w, interval, first_conn, eL, t_conn):
    """The Leader's application throttles its subchannel (pauseProducing)
    around a connection loss and resumes at a drawn moment - before the loss,
    during the gap, or after the replacement is up. Once it has resumed the
    peer is responsive by construction and must not be dropped."""
    sim = w.sim
    L, F = w.leader, w.follower
    R = sim.reactor
    viol = []
    L.listen("data")
    rec = F.connect("data")
    sim.run(4000, until=lambda: rec[1] != "pending" and any(
        q.role == "acceptor" and q.made for q in L.protocols),
        max_time=interval / 4)
    acc = [q for q in L.protocols if q.role == "acceptor" and q.made]
    if rec[1] != "ok" or not acc:
        raise HarnessError("setup: subchannel not opened")
    q = acc[0]
    when = tape.pick(("before_loss", "in_gap", "in_gap", "after_replacement"),
                     "resume_when")
    state = {"paused": False, "resumed": False, "cut": False}

    def pause():
        q.transport.pauseProducing()
        state["paused"] = True
        sim.ev("app_pause")
    R.callLater(interval * 0.1, pause)
    cut_at = interval * tape.pick((0.2, 0.7, 1.3), "cut_at")

    def resume():
        if state["paused"] and not state["resumed"]:
            state["resumed"] = True
            q.transport.resumeProducing()
            sim.ev("app_resume", when)

    def do_cut():
        if when == "before_loss":
            resume()
        if eL.link.up:
            state["cut"] = True
            sim.ev("cut")
            sim.note("fault.cut")
            sim.net.cut(eL.link)
    R.callLater(cut_at, do_cut)

    def tick():
        if when == "in_gap" and state["cut"] and L.m._connection is None:
            resume()
    sim.after_step = tick

    def replaced():
        c = L.m._connection
        return c is not None and c is not first_conn and w.both_connected()
    sim.run(30000, until=replaced, max_time=cut_at + 6 * interval)
    if not replaced():
        w.finish()
        return _no_replacement(sim, seed, "pause_reconnect", interval,
                               "link cut at +%.2f (application had paused its "
                               "subchannel, resumes %s): no replacement "
                               "connection within 6 intervals" % (cut_at, when))
    resume()                       # "after_replacement" (or a late gap)
    c2 = L.m._connection
    e2 = w.l2_end[c2]
    t2 = sim.now()
    dropped = [None]

    def watch():
        if dropped[0] is None and (not e2.alive or e2.transport.disconnecting):
            dropped[0] = sim.now()
            sim.ev("leader_dropped_replacement")
    sim.after_step = watch
    sim.run(30000, until=lambda: dropped[0] is not None,
            max_time=5 * interval)
    watch()
    w.finish()
    if dropped[0] is not None:
        viol.append({"key": "C16.responsive_dropped_after_app_pause",
                     "clause": "a connection whose peer answers every ping "
                     "within one interval is never dropped by the monitor",
                     "detail": "interval %.1f: application paused its "
                     "subchannel at +%.2f, connection lost at +%.2f, resumed "
                     "%s; the responsive replacement was dropped %.2f s after "
                     "it was selected (read-paused: %s)" %
                     (interval, 0.1 * interval, cut_at, when,
                      dropped[0] - t2, e2.read_paused)})
    return {"violation": viol[0] if viol else None, "nontrivial": True,
            "digest": sim.hexdigest(), "trace": sim.trace,
            "stats": {"steps": sim.steps, "sim_s": sim.now() - 1000.0,
                      "notes": sim.notes},
            "sample": {"seed": seed, "regime": "pause_reconnect",
                       "interval": interval, "cut_at": cut_at,
                       "resume_when": when,
                       "dropped_at": None if dropped[0] is None else
                       round(dropped[0] - t2, 3)}}


def _stop_bulk(seed, tape, w, interval, first_conn, eL, t_conn):
    """Dilation is stopped while the Leader's connection still has a large
    backlog to deliver over a slow path: the graceful close takes several
    ping intervals. From stop() on the monitor is off: no ping is issued, no
    timer is pending, the closing connection is not aborted by it."""
    sim = w.sim
    L, F = w.leader, w.follower
    R = sim.reactor
    viol = []
    nrec = 6 + tape.choose(8, "nrec")
    recsize = 60000
    backlog = nrec * recsize
    spread = tape.pick((2.5, 4.0, 6.0), "spread")
    rate = backlog / (spread * interval)
    sim.net.window = 16384
    sim.net.high_water = 65536
    for e in eL.link.ends:
        e.rate = rate
        e.rate_burst = 16384
    F.listen("data")
    rec = L.connect("data")
    sim.run(4000, until=lambda: rec[1] != "pending", max_time=interval / 4)
    if rec[1] != "ok":
        raise HarnessError("setup: subchannel not opened: %r" % (rec[1],))
    p = rec[2]
    for i in range(nrec):
        p.transport.write(bytes([65 + i % 26]) * recsize)
    sim.run(4000, max_time=interval * tape.pick((0.05, 0.4, 0.9), "stop_at"))
    pings_after = []
    real_send = L.m.send_ping

    def send_ping(ping_id, on_pong=None):
        pings_after.append(round(sim.now() - t_stop[0], 3))
        return real_send(ping_id, on_pong)
    t_stop = [sim.now()]
    stopped = []
    L.m.when_stopped().addCallback(lambda _: stopped.append(sim.now()))
    L.m.send_ping = send_ping
    sim.ev("stop")
    L.m.stop()
    aborted = [None]
    timer_seen = [None]

    def watch():
        if stopped:
            return
        if timer_seen[0] is None and _timer_pending(L.m):
            timer_seen[0] = sim.now() - t_stop[0]
        if aborted[0] is None and not eL.link.up:
            aborted[0] = sim.now() - t_stop[0]
    sim.after_step = watch
    sim.run(60000, until=lambda: bool(stopped), max_time=(spread + 4) *
            interval)
    took = (stopped[0] - t_stop[0]) if stopped else None
    if timer_seen[0] is not None:
        viol.append({"key": "C16.timer_after_stop", "clause": "monitoring "
                     "stops when dilation is stopped", "detail": "interval "
                     "%.1f: %.2f s after stop() a ping timer is pending (the "
                     "graceful close of a %d kB backlog at %d kB/s %s)" %
                     (interval, timer_seen[0], backlog // 1024, rate / 1024,
                      "took %.1f s" % took if took is not None else
                      "had not finished")})
    elif pings_after:
        viol.append({"key": "C16.ping_after_stop", "clause": "monitoring "
                     "stops when dilation is stopped", "detail": "interval "
                     "%.1f: pings issued %r s after stop()" %
                     (interval, pings_after[:4])})
    w.finish()
    return {"violation": viol[0] if viol else None,
            "nontrivial": took is None or took > interval,
            "digest": sim.hexdigest(), "trace": sim.trace,
            "stats": {"steps": sim.steps, "sim_s": sim.now() - 1000.0,
                      "notes": sim.notes},
            "sample": {"seed": seed, "regime": "stop_bulk",
                       "interval": interval, "backlog": backlog,
                       "rate": round(rate), "close_took": took}}


def _bulk_reconnect(seed, tape, w, interval, first_conn, eL, t_conn):
    """A responsive peer behind a slow path: the Leader has a large un-acked
    backlog when the connection is lost, and re-sending it on the replacement
    takes longer than a ping interval (the transport pauses the Outbound
    mid-way). The path still carries a ping and its pong in well under one
    interval, and the Follower answers at once: by construction every ping
    is answered within one interval, so the monitor must never drop."""
    sim = w.sim
    L, F = w.leader, w.follower
    R = sim.reactor
    viol = []
    nrec = 8 + tape.choose(8, "nrec")
    recsize = 60000
    backlog = nrec * recsize
    # bytes per simulated second: the backlog needs 1.3 .. 3 intervals, a ping
    # queued behind a full transport buffer (<= ~130 KiB + window) well under
    # one interval
    spread = tape.pick((1.3, 2.0, 3.0), "spread")
    rate = max(backlog / (spread * interval), 3.2 * 150000 / interval)
    sim.net.window = 16384
    sim.net.high_water = 65536

    def limit(end):
        end.rate = rate
        end.rate_burst = 16384
    orig_made = sim.on_end_made

    def on_end_made(end):
        if orig_made is not None:
            orig_made(end)
        if end.link.mode == "stream":
            limit(end)
    sim.on_end_made = on_end_made
    for e in eL.link.ends:
        limit(e)
    F.listen("data")
    rec = L.connect("data")
    sim.run(4000, until=lambda: rec[1] != "pending", max_time=interval / 4)
    if rec[1] != "ok":
        raise HarnessError("setup: subchannel not opened: %r" % (rec[1],))
    p = rec[2]
    issued, lat = {}, []
    real_send, real_pong = L.m.send_ping, L.m.handle_pong

    def send_ping(ping_id, on_pong=None):
        issued[ping_id] = sim.now()
        return real_send(ping_id, on_pong)

    def handle_pong(ping_id):
        if ping_id in issued:
            lat.append(sim.now() - issued.pop(ping_id))
        return real_pong(ping_id)
    L.m.send_ping, L.m.handle_pong = send_ping, handle_pong

    def write_all():
        for i in range(nrec):
            if not p.lost:
                p.transport.write(bytes([65 + i % 26]) * recsize)
    R.callLater(interval * 0.1, write_all)
    cut_at = interval * tape.pick((0.15, 0.3, 0.6), "cut_at")

    def do_cut():
        if eL.link.up:
            sim.ev("cut")
            sim.note("fault.cut")
            sim.net.cut(eL.link)
    R.callLater(cut_at, do_cut)

    def replaced():
        c = L.m._connection
        return c is not None and c is not first_conn and w.both_connected()
    sim.run(60000, until=replaced, max_time=cut_at + 4 * interval)
    if not replaced():
        w.finish()
        return _no_replacement(sim, seed, "bulk_reconnect", interval,
                               "link cut at +%.2f under a bulk backlog: no "
                               "replacement connection within 4 intervals" %
                               cut_at)
    c2 = L.m._connection
    e2 = w.l2_end[c2]
    t2 = sim.now()
    dropped = [None]
    paused_seen = [0]

    def watch():
        if dropped[0] is None and (not e2.alive or e2.transport.disconnecting):
            dropped[0] = sim.now()
            sim.ev("leader_dropped_replacement")
        if e2.alive and e2.transport.producerPaused:
            paused_seen[0] += 1
    sim.after_step = watch
    sim.run(400000, until=lambda: dropped[0] is not None,
            max_time=(spread + 4) * interval)
    watch()
    w.finish()
    worst = max(lat) if lat else 0.0
    got = sum(len(x) for q in F.protocols for x in q.data)
    if paused_seen[0]:
        sim.note("probe.replay_paused_by_backpressure")
    if dropped[0] is not None:
        if worst < interval:
            viol.append({"key": "C16.responsive_dropped_under_load", "clause":
                         "a connection whose peer answers every ping within "
                         "one interval is never dropped by the monitor",
                         "detail": "interval %.1f: %d KiB un-acked at the "
                         "loss, re-sent at %.0f KiB/s (%.1f intervals) on the "
                         "replacement; the peer answers at once, slowest "
                         "pong %.2f s, %d ping(s) never answered because "
                         "never transmitted; Leader dropped the replacement "
                         "%.2f s after it was selected" %
                         (interval, backlog // 1024, rate / 1024, spread,
                          worst, len(issued), dropped[0] - t2)})
        else:
            sim.note("probe.premise_broken_slow_pong")
    return {"violation": viol[0] if viol else None,
            "nontrivial": paused_seen[0] > 0,
            "digest": sim.hexdigest(), "trace": sim.trace,
            "stats": {"steps": sim.steps, "sim_s": sim.now() - 1000.0,
                      "notes": sim.notes},
            "sample": {"seed": seed, "regime": "bulk_reconnect",
                       "interval": interval, "backlog": backlog,
                       "rate": round(rate), "cut_at": cut_at,
                       "pongs": len(lat), "slowest_pong": round(worst, 3),
                       "delivered": got,
                       "dropped_at": None if dropped[0] is None else
                       round(dropped[0] - t2, 3)}}


def _one_way(seed, tape, w, interval, first_conn, eL, t_conn):
    """Asymmetric path death: from a drawn time on nothing the Leader sends
    reaches the Follower any more (so its pings go unanswered) while the
    Follower's own data keeps arriving at the Leader. Pongs, not other
    records, are what 'answering' means: the Leader must still drop the
    connection by the second expiry after the last answered ping."""
    sim = w.sim
    L, F = w.leader, w.follower
    R = sim.reactor
    viol = []
    L.listen("data")
    rec = F.connect("data")
    sim.run(3000, until=lambda: rec[1] != "pending", max_time=interval / 4)
    if rec[1] != "ok":
        raise HarnessError("setup: subchannel not opened: %r" % (rec[1],))
    p = rec[2]
    eF = eL.peer
    pongs = [sim.now()]
    real_pong = L.m.handle_pong

    def handle_pong(ping_id):
        pongs.append(sim.now())
        return real_pong(ping_id)
    L.m.handle_pong = handle_pong
    dead_at = interval * tape.pick((0.05, 0.5, 0.95, 1.0, 1.05, 1.6, 2.0, 2.4,
                                    3.3), "dead_at")
    gap = interval * tape.pick((0.05, 0.2, 0.45, 0.9), "data_gap")
    horizon = dead_at + 6 * interval
    nwrites = [0]

    def write():
        if not p.lost and eF.alive and sim.now() - t_conn < horizon:
            p.transport.write(b"D" * 20)
            nwrites[0] += 1
            R.callLater(gap, write)
    R.callLater(gap * tape.pick((0.1, 0.5, 1.0), "phase"), write)

    def die():
        if eF.alive:
            eF.stalled = True       # Leader -> Follower bytes never arrive
            sim.ev("one_way_dead")
            sim.note("fault.stall")
    R.callLater(dead_at, die)
    dropped = [None]

    def watch():
        if dropped[0] is None and (not eL.alive or eL.transport.disconnecting):
            dropped[0] = sim.now()
            sim.ev("leader_dropped")
    sim.after_step = watch
    r2 = sim.run(60000, until=lambda: dropped[0] is not None,
                 max_time=horizon)
    watch()
    w.finish()
    t_last = max(pongs)
    if dropped[0] is None:
        viol.append({"key": "C16.unanswered_not_dropped", "clause": "a "
                     "connection on which the other side stops answering is "
                     "dropped by the Leader no later than the second timer "
                     "expiry after the last answered ping",
                     "detail": "interval %.1f: Leader->Follower path dead "
                     "from t+%.2f, Follower data every %.2f s still arriving; "
                     "last pong at t+%.2f; not dropped by t+%.2f (%s)" %
                     (interval, dead_at, gap, t_last - t_conn,
                      sim.now() - t_conn, r2)})
    elif dropped[0] > t_last + 3 * interval + 1e-6:
        viol.append({"key": "C16.unanswered_dropped_late", "clause":
                     "dropped under three ping intervals after the last "
                     "answered ping", "detail": "interval %.1f: last pong "
                     "t+%.2f, dropped t+%.2f" % (interval, t_last - t_conn,
                                                 dropped[0] - t_conn)})
    return {"violation": viol[0] if viol else None,
            "nontrivial": nwrites[0] > 0 and len(pongs) > 1,
            "digest": sim.hexdigest(), "trace": sim.trace,
            "stats": {"steps": sim.steps, "sim_s": sim.now() - 1000.0,
                      "notes": sim.notes},
            "sample": {"seed": seed, "regime": "one_way",
                       "interval": interval, "dead_at": dead_at,
                       "data_gap": gap, "writes": nwrites[0],
                       "pongs": len(pongs) - 1,
                       "last_pong": round(t_last - t_conn, 3),
                       "dropped_at": None if dropped[0] is None else
                       round(dropped[0] - t_conn, 3)}}


def _reconnect_silent(seed, tape, w, interval, first_conn, eL, t_conn):
    """The first connection is lost for an outside reason at a drawn time, a
    replacement is negotiated, and the peer goes silent on the replacement:
    the Leader must drop that one too (monitoring resumed)."""
    sim = w.sim
    L = w.leader
    R = sim.reactor
    viol = []
    cut_at = interval * tape.pick((0.2, 0.9, 1.0, 1.5, 2.7), "cut_at")

    def do_cut():
        if eL.link.up:
            sim.ev("cut")
            sim.note("fault.cut")
            sim.net.cut(eL.link)
    R.callLater(cut_at, do_cut)

    def replaced():
        c = L.m._connection
        return c is not None and c is not first_conn and w.both_connected()
    sim.run(20000, until=replaced, max_time=cut_at + 6 * interval)
    if not replaced():
        sim.note("probe.no_replacement_connection")
        w.finish()
        return {"violation": None, "nontrivial": False,
                "digest": sim.hexdigest(), "trace": sim.trace,
                "stats": {"steps": sim.steps, "sim_s": sim.now() - 1000.0,
                          "notes": sim.notes},
                "sample": {"seed": seed, "regime": "reconnect_silent"}}
    c2 = L.m._connection
    e2 = w.l2_end[c2]
    t2 = sim.now()
    rx = [t2]
    e2.link.tap = lambda end, data: rx.append(sim.now()) if end is e2 else None
    silent_at = interval * tape.pick((0.0, 0.4, 1.0, 1.3, 2.6), "silent2")

    def go_silent():
        if e2.alive:
            e2.stalled = True
            sim.ev("stall")
            sim.note("fault.stall")
    R.callLater(silent_at, go_silent)
    dropped = [None]

    def watch():
        if dropped[0] is None and (not e2.alive or e2.transport.disconnecting):
            dropped[0] = sim.now()
            sim.ev("leader_dropped_replacement")
    sim.after_step = watch
    r2 = sim.run(20000, until=lambda: dropped[0] is not None,
                 max_time=silent_at + 6 * interval)
    watch()
    w.finish()
    t_last = max(rx)
    if dropped[0] is None:
        viol.append({"key": "C16.replacement_not_monitored", "clause":
                     "monitoring resumes on the next connection: a silent "
                     "peer is dropped no later than the second timer expiry "
                     "after the last answered ping",
                     "detail": "interval %.1f: first connection cut at t+%.2f,"
                     " replacement up at t+%.2f, peer silent from +%.2f on it,"
                     " last traffic +%.2f; not dropped %.2f s later (%s)" %
                     (interval, cut_at, t2 - t_conn, silent_at, t_last - t2,
                      sim.now() - t_last, "nothing left scheduled: no ping "
                      "timer exists" if r2 == "idle" else r2)})
    elif dropped[0] > t_last + 3 * interval + 1e-6:
        viol.append({"key": "C16.replacement_dropped_late", "clause":
                     "dropped under three ping intervals after the last "
                     "answered ping", "detail": "interval %.1f: last traffic "
                     "%.2f, dropped %.2f" % (interval, t_last - t2,
                                             dropped[0] - t2)})
    return {"violation": viol[0] if viol else None, "nontrivial": True,
            "digest": sim.hexdigest(), "trace": sim.trace,
            "stats": {"steps": sim.steps, "sim_s": sim.now() - 1000.0,
                      "notes": sim.notes},
            "sample": {"seed": seed, "regime": "reconnect_silent",
                       "interval": interval, "cut_at": cut_at,
                       "replacement_at": round(t2 - t_conn, 3),
                       "silent_at": silent_at,
                       "dropped_at": None if dropped[0] is None else
                       round(dropped[0] - t2, 3)}}


if __name__ == "__main__":
    import sys
    sys.exit(runner.main(sys.modules[__name__]))
