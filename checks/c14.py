"""C14 - no internal failure on any legal use against a conformant server."""
from simlib import boot  # noqa: F401
from simlib import runner
from checks import common_a as ca
from worlds.mailbox import MailboxWorld
from wormhole import errors as E

PROP = "C14"
LEVEL = "exploration"
QUICK_S = 60
THOROUGH_S = 900
TECHNIQUE = ("deterministic simulation: seeded search over legal API call "
             "sequences x conformant-server behaviours (dup/reorder/replay, "
             "third participant, welcome error, every kind of connection "
             "loss); oracle = no escaping exception, no logged internal "
             "failure, documented verdict")
RULE = ("One evaluation = one seeded execution of 2-3 real clients driven by "
        "the whole legal-use grammar (exactly one code call plus redundant "
        "ones that must raise OnlyOneCodeError, input-helper calls in any "
        "order, send/get_*/derive_key/close at any time, optionally "
        "w.dilate()) against the real mailbox server behind a fault layer "
        "that only does what a conformant server may do. Non-trivial: a fault "
        "fired or a redundant/out-of-order API call was made, and at least "
        "one client reached a key. Distinct: event-log digests among "
        "non-trivial runs; the evidence also counts the distinct (machine, "
        "state, input) transitions reached via the machines' own trace hooks.")
RULE += (' The words of an interactive code entry may be entered after the wormhole closed or failed under the prompt.')
RULE += (" A when_wordlist_is_available() Deferred's callback calls back into the library (completions, choose_words or close).")
RULE += (' A ninth configuration makes both sides dilate the moment the verifier is known, on a reordering server.')
RULE += (" A tenth configuration holds long conversations (66..100 messages each way) and then loses the server connection (the whole mailbox is replayed).")
RULE += (" A third of the paired sessions linger after the first message and lose their server connection once more before closing.")
RULE += (" In a third of the runs the server may be restarted with a welcome error while sessions are under way (the welcome of every later connection carries an error).")
LEVEL_TEXT = ("Seeded exploration of the composed client (13 mailbox machines "
              "+ Dilator) for reachable-but-undeclared (state, input) pairs. "
              "Gating configuration generates only calls whose legality the "
              "docs settle; code-entry calls after close() are not generated.")
LEVEL_NOTE = ("Byzantine content is C02's business. Dilation configuration "
              "uses no_listen without relay (no peer connection), so it "
              "covers the mailbox-carried part of Dilation only.")
ASSUMPTIONS = ["message-framed websocket stub, simulated TCP",
               "server behaviours limited to the real server + documented "
               "non-guarantees (no dedup, no ordering of `message` events)"]
COMPONENTS = {
    "real": ["wormhole client (all machines)", "Dilator/Manager (dilate "
             "config)", "Twisted ClientService", "wormhole_mailbox_server"],
    "stub": ["Autobahn", "TCP/DNS", "SPAKE2 (7/8 runs)"]}

ALL_FAULTS = ca.CONN_FAULTS + ca.MSG_FAULTS


def configs(tier):
    out = []
    for i in range(8):
        out.append({"spake": "real" if i == 0 else "stub", "reentrant": i % 3 == 1,
                    "dilate": i % 4 == 3, "dilate_listen": i == 7,
                    "reorder_heavy": i % 2 == 1,
                    "fault_initial": i == 6,
                    "variant": ("same", "same", "welcome_error", "crowded",
                                "wrong", "crowded", "same", "same")[i]})
    # the ninth: both sides dilate the moment the first peer message has
    # decrypted, on a server that does not keep the order of messages
    out.append({"spake": "stub", "dilate": True, "reorder_heavy": True,
                "variant": "same", "dilate_early": True})
    # the tenth: long conversations (more than 64 phases each way), then a
    # reconnect with the whole mailbox replayed
    out.append({"spake": "stub", "variant": "same", "long_session": True})
    return out


DILATE_EARLY = [False]
LONG_SESSION = [False]


def grammar(tape, c, code_ops, other, dilate, pairable=True):
    """A legal call sequence for one client."""
    ops = list(code_ops)
    uses_input = any(o[0] == "input" for o in ops)
    extra = []
    for _ in range(tape.choose(4, "nextra")):
        k = tape.choose(8, "extra")
        if k == 0:
            extra.append(("send", ca.gen_payload(tape, len(extra), c.name,
                                                 False)))
        elif k == 1:
            extra.append(("get", tape.pick(("welcome", "code", "key",
                                            "verifier", "versions",
                                            "message"), "g")))
        elif k == 2:
            extra.append(("derive_key", tape.pick(("p", "purpose/x", "ü"),
                                                  "dp"),
                          1 + tape.choose(64, "dl")))
        elif k == 3:
            # redundant code call: must raise OnlyOneCodeError (placed after
            # the real one by construction below)
            extra.append(("REDUNDANT", tape.pick(
                (("allocate", 2), ("set_code", "5-red-undant"), ("input",)),
                "red")))
        elif k in (4, 5) and uses_input:
            m = tape.pick((("helper", "refresh_nameplates"),
                           ("helper", "get_nameplate_completions", ""),
                           ("helper", "get_nameplate_completions", "1"),
                           ("helper", "get_word_completions", "a"),
                           ("helper", "get_word_completions", "ab-"),
                           ("helper", "choose_nameplate", "77"),
                           ("helper", "choose_words", "zz-yy"),
                           ("helper", "when_wordlist_is_available")), "hm")
            extra.append(m)
        else:
            extra.append(("send", ca.gen_payload(tape, len(extra), c.name,
                                                 False)))
    out = list(ops)
    pos_first_code = 0
    for op in extra:
        if op[0] == "REDUNDANT":
            from worlds.mailbox import CODE_OPS
            first = min(i for i, o in enumerate(out) if o[0] in CODE_OPS)
            pos = first + 1 + tape.choose(len(out) - first, "rpos")
            out.insert(pos, op[1])
        elif op[0] == "helper":
            # after input_code() so that the helper exists; helper calls that
            # pre-empt the scripted choice are avoided (they would change the
            # code); wrong-order calls raise documented errors
            idx = [i for i, o in enumerate(out) if o[0] == "input"][0]
            if op[1] in ("choose_nameplate", "choose_words"):
                last = max(i for i, o in enumerate(out)
                           if o[0] in ("choose_words_from",
                                       "choose_wrong_words_from"))
                pos = last + 1 + tape.choose(len(out) - last, "hpos")
            else:
                pos = idx + 1 + tape.choose(len(out) - idx, "hpos")
            out.insert(pos, op)
        else:
            out.insert(tape.choose(len(out) + 1, "xpos"), op)
    if dilate and c.api == "deferred":
        dpos = tape.choose(len(out) + 1, "dpos")
        out.insert(dpos, ("dilate", {"no_listen": not DILATE_LISTEN[0]}))
        if tape.choose(2, "d_after_verifier") == 0 or DILATE_EARLY[0]:
            # the common idiom: `await w.get_verifier(); w.dilate()` - dilate
            # the moment the first peer message has decrypted
            out.insert(dpos, ("wait_event_or_steps", "verifier",
                              300 + tape.choose(300, "dvw")))
    if pairable and LONG_SESSION[0]:
        # a chatty application: 66..100 messages, then the connection to the
        # server drops and comes back (the server replays the whole mailbox)
        out += [("wait_event_or_steps", "verifier", 300)]
        out += [("send", b"%s-long-%d" % (c.name.encode(), i))
                for i in range(66 + tape.choose(35, "long_n"))]
        out += [("wait_all_delivered", other), ("bounce",),
                ("wait_steps", 60 + tape.choose(120, "b_w3"))]
    elif pairable and tape.choose(3, "bounce") == 0:
        # an established session that lingers: the connection to the server
        # drops and comes back long after the key was confirmed
        out += [("wait_event_or_steps", "message", 300),
                ("wait_steps", 5 + tape.choose(60, "b_w1")), ("bounce",),
                ("wait_steps", 20 + tape.choose(120, "b_w2"))]
    # close somewhere: mostly late
    style = tape.choose(4, "cstyle")
    if style == 0 and pairable:
        out.append(("wait_all_delivered", other))
    elif style in (0, 1, 2):
        out.append(("wait_event_or_steps",
                    tape.pick(("code", "key", "verifier", "versions",
                               "closed"), "wev"), 100 + tape.choose(400, "ws")))
    else:
        cut = tape.choose(len(out) + 1, "cut")
        tail = [o for o in out[cut:] if o[0] in ("send", "get", "derive_key",
                                                 "choose_words_from")]
        out = out[:cut] + [("close",)] + tail[:2]
        return out
    out.append(("close",))
    for _ in range(tape.choose(3, "after")):
        out.append(tape.pick((("send", b"late"), ("get", "message"),
                              ("get", "code"), ("close",),
                              ("derive_key", "p", 8)), "afterop"))
    return out


INTERNAL = ("NoTransition", "AssertionError", "AttributeError", "KeyError",
            "TypeError", "ValueError", "IndexError", "NameError",
            "UnboundLocalError", "RuntimeError", "AlreadyCalledError",
            "ZeroDivisionError")


DILATE_LISTEN = [False]


def run_one(seed, tape, opts):
    DILATE_LISTEN[0] = bool(opts.get("dilate_listen"))
    DILATE_EARLY[0] = bool(opts.get("dilate_early"))
    LONG_SESSION[0] = bool(opts.get("long_session"))
    variant = opts.get("variant", "same")
    welcome = {"error": "sim says no"} if variant == "welcome_error" else {}
    w = MailboxWorld(tape, dict(opts, late_words=True, wordlist_cb=True),
                     welcome=welcome)
    sim = w.sim
    dil = bool(opts.get("dilate"))
    apis = ("deferred", "delegate")
    mk = dict(dilation=True) if dil else {}
    a = w.add_client("A", api=tape.pick(apis, "api_a"), versions={"v": 1}, **mk)
    b = w.add_client("B", api=tape.pick(apis, "api_b"), versions={"v": 2}, **mk)
    clients = [a, b]
    if variant == "crowded":
        c3 = w.add_client("C", api="deferred")
        clients.append(c3)
        c3.script = [("set_code_from", "A"),
                     ("wait_event_or_steps", "closed", 300), ("close",)]
    mode = tape.pick(("alloc_set", "set_set", "alloc_input"), "codemode")
    w.mode = variant + "/" + mode + ("/dilate" if dil else "")
    if mode == "set_set":
        code = ca.fixed_code(tape)
        code_a, code_b = [("set_code", code)], [("set_code", code)]
        if variant == "wrong":
            code_b = [("set_code", code + "x")]
    else:
        code_a = ca.code_ops(tape, mode, True, "B")
        code_b = ca.code_ops(tape, mode, False, "A")
        if variant == "wrong":
            if mode == "alloc_set":
                code_b = [("set_code_wrong_from", "A")]
            else:
                code_b = code_b[:-1] + [("choose_wrong_words_from", "A")]
    pairable = variant in ("same",)
    a.script = grammar(tape, a, code_a, "B", dil, pairable)
    b.script = grammar(tape, b, code_b, "A", dil, pairable)
    def bounce(c):
        for link in sim.net.links:
            if link.mode == "message" and link.up and link.owner is c:
                sim.note("fault.cut")
                sim.ev("bounce", c.name)
                sim.net.cut(link)
    w.extra_ops = dict(w.extra_ops or {}, bounce=bounce)
    kinds = ALL_FAULTS
    if tape.choose(3, "unw") == 0:
        # the operator restarts the server with a welcome error: sessions
        # that were established meet it on their next connection
        kinds = kinds + ("restart_unwelcome",)
    ca.pick_faults(tape, w, kinds, 5)
    planned = None
    if variant == "crowded" and tape.choose(2, "slowA") == 0:
        # one of the three is slow to read the server's replies while the
        # others join (a busy client / a long round trip)
        t1 = tape.choose(60, "ds_t1")
        planned = w.plan_downlink_stall(tape.pick(clients, "ds_victim"), t1,
                                        t1 + 10 + tape.choose(150, "ds_len"))
    traces = set()
    if opts.get("_cover", True):
        for c in clients:
            _hook_traces(c, traces)
    viol = []

    def done():
        return all(c.is_closed for c in clients) and w.scripts_done()
    if planned is not None:
        sim.after_step = planned
    sim.run(4000, until=done)
    w.heal()
    r = sim.run(6000, until=done, max_time=600)
    sim.run(300, max_time=30)
    import gc
    gc.collect()
    w.finish()

    def V(key, clause, detail):
        if not viol:
            viol.append({"key": key, "clause": clause, "detail": detail})
    for c in clients:
        for label, etype, text in c.api_errors:
            V("C14.api.%s.%s" % (label, etype),
              "no exception other than the documented ones escapes an API "
              "call", "%s.%s raised %s: %s [variant %s]" %
              (c.name, label, etype, text[:160], w.mode))
        for res in c.closed_results:
            if not (res == "happy" or isinstance(res, E.WormholeError)):
                V("C14.verdict.%s" % type(res).__name__,
                  "close() reports 'happy' or a documented WormholeError",
                  "%s closed with %r" % (c.name, res))
    for etype, text, why in w.log.errors:
        if etype in INTERNAL or True:
            V("C14.logged.%s" % etype,
              "no state machine receives an input it has no transition for, "
              "no assertion fires, nothing escapes ws_*/timers/eventual turns",
              "%s: %s (%s) [variant %s]" % (etype, text[:200], why, w.mode))
            break
    if r != "until":
        sim.note("settle_incomplete")
    nontrivial = (bool(w.faults_fired) or
                  sim.notes.get("fault.mbox_unordered_delivery", 0) > 0 or
                  any(c.expected_errors for c in clients)) and \
        any(c.has("key") for c in clients)
    return ca.result(sim, w, viol[0] if viol else None, nontrivial, seed,
                     extra_sample={"variant": w.mode},
                     extra_stats={"transitions": sorted(traces)})


def _hook_traces(c, acc):
    boss = c.w._boss
    names = {"B": boss, "N": boss._N, "M": boss._M, "S": boss._S,
             "O": boss._O, "K": boss._K, "SK": boss._K._SK, "R": boss._R,
             "L": boss._L, "A": boss._A, "I": boss._I, "C": boss._C,
             "T": boss._T}
    for mname, obj in names.items():
        def tracer(old_state, input, new_state, mname=mname):
            acc.add("%s:%s:%s" % (mname, old_state, input))
            return None
        try:
            obj.set_trace(tracer)
        except Exception:
            pass


if __name__ == "__main__":
    import sys
    sys.exit(runner.main(sys.modules[__name__]))
