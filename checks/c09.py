"""C09 - the mailbox session survives connection loss."""
from simlib import boot  # noqa: F401
from simlib import runner
from checks import common_a as ca

PROP = "C09"
LEVEL = "exploration"
QUICK_S = 40
THOROUGH_S = 900
TECHNIQUE = ("deterministic simulation with connection-fault injection between "
             "any two protocol steps; safety oracles per event, bounded-"
             "liveness oracle after faults stop")
RULE = ("One evaluation = one seeded execution of two real clients + real "
        "mailbox server; fault sequence of cut / half-open (either end told) / "
        "server restart / refuse / hang (0..6, placed by the scheduler between "
        "any two events, only after a client's first successful connection "
        "since an initial failure is documented as fatal), all three code "
        "paths, sends queued at arbitrary times. Non-trivial: at least one "
        "reconnect by a client. Distinct: distinct event-log digests among "
        "non-trivial runs.")
RULE += (" Three of eight configurations add a planned uplink loss (server stops reading one client's connection, then the connection dies).")
RULE += (' Two further configurations apply the planned uplink loss twice in a row to the same client (what was re-submitted on the replacement connection is lost again).')
RULE += (' Re-entrant applications also pass on_status_update= and may send a message from inside that callback (one configuration: from every status callback).')
RULE += (' Interactive code entry: the nameplate list asked for by input_code() / refresh_nameplates() must have been answered by the time the session completes.')
LEVEL_TEXT = ("Seeded exploration of drop points in a composed two-client run; "
              "after the last fault connectivity is restored and the run must "
              "reach: both sides have code/key/verifier/versions, every sent "
              "message delivered, both close 'happy', within 8000 events and "
              "900 simulated seconds.")
LEVEL_NOTE = ("Initial-connection failures are excluded (documented fatal). "
              "Liveness bound covers ClientService back-off (max 60 s). "
              "Websocket framing stubbed; SPAKE2 stand-in in 7/8 runs.")
ASSUMPTIONS = ["message-framed websocket stub, simulated TCP",
               "faults start after each client's first websocket open"]
COMPONENTS = {
    "real": ["wormhole client (all machines, RendezvousConnector)", "Twisted "
             "ClientService back-off", "wormhole_mailbox_server handlers+DB"],
    "stub": ["Autobahn", "TCP/DNS", "SPAKE2 (7/8 runs)"]}


def configs(tier):
    return [{"spake": "real" if i == 0 else "stub", "reentrant": i % 3 == 1,
             "uplink_loss": i in (2, 5, 7),
             # the server replays / forwards stored messages in any order
             "reorder_heavy": i in (3, 6),
             "max_msgs": 4 if tier == "quick" else 8} for i in range(8)] + \
        [{"spake": "stub", "uplink_loss": "double", "faults_few": k == 1,
          "max_msgs": 4 if tier == "quick" else 8} for k in range(2)] + \
        [# applications that ask for status updates and send a message from
         # inside every status callback they get (re-entrancy from a callback
         # that runs in the middle of connection set-up and tear-down)
         {"spake": "stub", "reentrant": True, "status_heavy": True,
          "max_msgs": 4}]


def run_one(seed, tape, opts):
    w, a, b = ca.build_pair(tape, opts, max_msgs=opts.get("max_msgs", 4))
    sim = w.sim
    for c, peer in ((a, "B"), (b, "A")):
        c.script += [("wait_all_delivered", peer), ("close",)]
    ca.pick_faults(tape, w, ca.CONN_FAULTS, 2 if opts.get("faults_few")
                   else 6)
    prefix = ca.PrefixOracle(a, b)
    order = ca.EventOrderOracle([a, b], versions_first=not opts.get(
        "reorder_heavy"))

    planned = None
    if opts.get("uplink_loss"):
        # planned compound fault: the server stops reading one client's
        # connection at a drawn event (its own messages stay in flight while
        # it keeps receiving the peer's), the connection dies at a later
        # drawn event, and the lost messages must be re-submitted
        t1 = tape.choose(200, "ul_t1")
        victim = tape.pick((a, b), "ul_victim")
        t2 = t1 + 1 + tape.choose(200, "ul_t2")
        planned = w.plan_uplink_loss(victim, t1, t2)
        if opts.get("uplink_loss") == "double":
            # ... and the same happens again to the replacement connection,
            # shortly after it opened (what was re-submitted is lost again)
            t3 = t2 + tape.choose(40, "ul_t3")
            second = w.plan_uplink_loss(victim, t3,
                                        t3 + 1 + tape.choose(80, "ul_t4"))
            first = planned

            def planned():
                first()
                second()

    # the nameplate list an interactive code entry asked for: requests (made
    # by input_code() and refresh_nameplates()) and answers, by event number
    list_req, list_ans = {}, {}

    def on_op(c, op, ok):
        if ok and op[0] in ("input", "refresh_nameplates"):
            list_req[c.name] = sim.steps

    def on_server_msg(c, msg):
        if msg.get("type") == "nameplates":
            list_ans[c.name] = sim.steps
    w.on_op = on_op
    w.on_server_msg = on_server_msg

    def oracle():
        if planned is not None:
            planned()
        prefix.step()
        order.step()
    sim.after_step = oracle

    def done():
        return bool(prefix.violation or order.violation) or \
            (a.is_closed and b.is_closed)
    sim.run(4000, until=done)
    w.heal()
    steps0, t0 = sim.steps, sim.now()
    r = sim.run(8000, until=done, max_time=900)
    w.finish()
    v = prefix.violation or order.violation
    if v and v["key"].startswith("C18"):
        v = dict(v, key="C09." + v["key"][4:])
    if v and v["key"].startswith("C03"):
        v = dict(v, key="C09.prefix")
    if not v:
        if r != "until":
            v = {"key": "C09.liveness",
                 "clause": "once both sides stay connected the exchange "
                           "completes and both close within the bound",
                 "detail": "after heal: %s after %d events / %.0f sim s; A=%s "
                           "B=%s" % (r, sim.steps - steps0, sim.now() - t0,
                                     _state(a), _state(b))}
        else:
            for x, y in ((a, b), (b, a)):
                if x.received != y.sent:
                    v = {"key": "C09.complete",
                         "clause": "every send_message() issued is delivered "
                                   "to the peer",
                         "detail": "%s received %d of %d" %
                                   (x.name, len(x.received), len(y.sent))}
                    break
                if x.closed_results != ["happy"]:
                    v = {"key": "C09.verdict",
                         "clause": "the session completes ('happy') despite "
                                   "reconnects",
                         "detail": "%s closed with %r" % (x.name,
                                                          x.closed_results)}
                    break
                if x.name in list_req and \
                        list_ans.get(x.name, -1) < list_req[x.name]:
                    # (every connection starts with the re-issued request, and
                    # the server answers in order: a session that went on to
                    # complete has seen the answer)
                    v = {"key": "C09.event_lost.nameplates",
                         "clause": "an unanswered request is re-issued on the "
                                   "next connection: no application-visible "
                                   "event is lost because of a reconnect",
                         "detail": "%s asked for the nameplate list at event "
                                   "%d (interactive code entry); the session "
                                   "completed, yet no `nameplates` answer "
                                   "reached it after that (last one: %s)" %
                                   (x.name, list_req[x.name],
                                    list_ans.get(x.name))}
                    break
                if x.api_errors:
                    v = {"key": "C09.api_error", "clause": "no exception from "
                         "API calls", "detail": repr(x.api_errors)}
                    break
                for kind in ("welcome", "code", "key", "verifier",
                             "versions"):
                    if not x.has(kind):
                        v = {"key": "C09.event_lost." + kind,
                             "clause": "no application-visible event is lost "
                                       "because of a reconnect",
                             "detail": "%s completed the session but never "
                                       "got its %r event; events %r" %
                                       (x.name, kind,
                                        [k for k, _ in x.events])}
                        break
                if v:
                    break
    rc = ca.reconnect_count(w)
    if rc:
        sim.note("reconnects", rc)
    return ca.result(sim, w, v, rc > 0, seed)


def _state(c):
    return "%s(events=%s recv=%d sent=%d)" % (
        c.name, [k for k, _ in c.events if not k.endswith("_err")][-4:],
        len(c.received), len(c.sent))


if __name__ == "__main__":
    import sys
    sys.exit(runner.main(sys.modules[__name__]))
