"""C17 - Dilation never blocks shutdown; an incapable peer is reported, not
awaited."""
from simlib import boot  # noqa: F401
from simlib import runner
from checks import common_a as ca
from worlds.mailbox import MailboxWorld
from worlds.dilation import RecFactory, RecProtocol, unwrap

from wormhole._dilation.manager import OldPeerCannotDilateError
from wormhole._dilation.connection import DilatedConnectionProtocol

PROP = "C17"
LEVEL = "exploration"
QUICK_S = 60
THOROUGH_S = 900
TECHNIQUE = ("deterministic simulation of two real wormholes (real mailbox "
             "server, real Terminator->Dilator->Manager->Connector->L2 chain, "
             "own Noise) with close() injected at scheduler-chosen points of "
             "the Dilation life cycle; leftover listeners / attempts / links / "
             "timers inspected in the simulated network afterwards")
RULE = ("One evaluation = one seeded execution: client A (dilation enabled) "
        "calls w.dilate() at a tape-chosen script position, optionally "
        "listens/connects subchannels; client B either dilates too, never "
        "calls dilate(), or was created without Dilation; close() on either "
        "side at tape-chosen points (waiting for the peer, connecting with "
        "listeners / pending attempts / half-done handshakes, connected, "
        "reconnecting after a cut, abandoning), mailbox connection faults. "
        "Non-trivial: close() hit a side whose Manager had left WAITING (a "
        "Connector existed) or the peer could not dilate. Distinct: "
        "event-log digests among non-trivial runs.")
RULE += (' Peer-link cuts are told to both ends or to one end first (the other learns later).')
RULE += (' A fifth configuration uses transports with bounded send buffers drained by the scheduler; both sides open subchannels, write 3..200 kB and close the wormhole at once or a little later.')
RULE += (" In a quarter of the runs one side's application calls close() from inside a subchannel callback (connectionMade / dataReceived / connectionLost).")
RULE += (' A sixth configuration cuts the peer link one-sidedly several times (the Follower is told to abandon a connection it still believes in) and lets close() land right at that moment in a third of those cases.')
RULE += (" In a third of the runs the subchannel protocols are half-closeable; in half of the runs an application closes (or write-closes) one of its subchannels some time before the wormhole is closed. The seventh configuration lets the peer link go silent for good (bytes vanish, no end is told) while subchannels carry data.")
LEVEL_TEXT = ("Seeded exploration. After faults stop, every close() that was "
              "called completes (closed notification) within 8000 events / "
              "600 simulated seconds; afterwards the closing side owns no "
              "listening port, no outstanding connect attempt, no open "
              "selected or outbound peer link and no pending ping timer. "
              "With a peer whose versions show it cannot dilate every "
              "connect()/listen() Deferred issued before or after the "
              "versions arrive fails with OldPeerCannotDilateError.")
LEVEL_NOTE = ("Un-selected *inbound* peer connections are not tracked by the "
              "Connector and are counted as a probe, not gated (the statement "
              "names listeners, pending attempts and the active connection).")
ASSUMPTIONS = ["message-framed websocket stub", "own Noise implementation"]
COMPONENTS = {"real": ["wormhole client incl. Terminator/Boss/Dilator/Manager/"
                       "Connector/L2/subchannels", "wormhole_mailbox_server"],
              "stub": ["Autobahn", "Noise (own)", "kernel TCP", "SPAKE2 "
                       "stand-in"]}

PEER_KINDS = ("dilates", "dilates", "never_dilates", "old_peer")


def configs(tier):
    # the fifth: both sides dilate, subchannels carry bulk data and the
    # transports have bounded send buffers drained by the scheduler, so that
    # close() finds the peer connection with unsent data (Outbound paused)
    return [{"spake": "stub", "peer": k} for k in PEER_KINDS] + \
        [{"spake": "stub", "peer": "dilates", "backpressure": True},
         # the sixth: peer-link losses that one end learns first (the Leader
         # asks for a reconnect while the Follower still believes in its
         # connection: ABANDONING), close() somewhere around them
         {"spake": "stub", "peer": "dilates", "focus": "abandon"},
         # the seventh: the peer link goes silent for good (bytes vanish,
         # nobody is told) while subchannels carry data; close() after that
         {"spake": "stub", "peer": "dilates", "focus": "silent"}]


from twisted.internet.interfaces import IHalfCloseableProtocol  # noqa: E402
from zope.interface import implementer  # noqa: E402


@implementer(IHalfCloseableProtocol)
class HalfRecProtocol(RecProtocol):
    """An application protocol that accepts half-close: after the peer's
    close it may go on writing (request half-closed, answer still going)."""

    def readConnectionLost(self):
        self.read_closed = True
        self.side.on_sub_event(self, "read_lost", None)

    def writeConnectionLost(self):
        self.side.on_sub_event(self, "write_lost", None)


class Owner:
    name = "X"

    def __init__(self, sim):
        self.sim = sim
        self.protocols = []

    react = None      # callable(kind) set by run_one

    def on_sub_event(self, p, kind, data):
        self.sim.ev("sub", kind)
        if self.react is not None:
            self.react(kind)


def run_one(seed, tape, opts):
    peer_kind = opts.get("peer", "dilates")
    w = MailboxWorld(tape, opts)
    sim = w.sim
    sim.no_advance_while_connecting = True
    if tape.choose(4, "many_hints") == 0:
        # hosts with many interfaces: 10..14 addresses, i.e. as many direct
        # hints a side; most of them lead nowhere (connects hang)
        from simlib import boot as _boot
        n_addr = 10 + tape.choose(5, "n_addr")
        _boot.ADDRESSES[:] = ["127.0.0.1"] + ["10.1.0.%d" % (k + 1)
                                               for k in range(n_addr)]
        for k in range(n_addr):
            if tape.choose(3, "addr_hangs") != 0:
                sim.net.host_mode["10.1.0.%d" % (k + 1)] = "hang"
        sim.note("probe.many_direct_hints")
    a = w.add_client("A", api="deferred", dilation=True, versions={})
    b = w.add_client("B", api="deferred", dilation=(peer_kind != "old_peer"),
                     versions={})
    code = ca.fixed_code(tape)
    w.mode = peer_kind
    results = {"A": [], "B": []}     # subchannel connect()/listen() records
    owners = {"A": Owner(sim), "B": Owner(sim)}

    # a third of the runs: applications whose subchannel protocols are
    # half-closeable
    pcls = HalfRecProtocol if tape.choose(3, "halfcls") == 0 or \
        opts.get("half") else RecProtocol
    reuse_ep = {"A": tape.choose(2, "reuseA") == 0,
                "B": tape.choose(2, "reuseB") == 0}
    ep_cache = {}

    # an application that closes the wormhole from inside a subchannel
    # callback (connectionMade / dataReceived / connectionLost), e.g. "last
    # byte received -> close" (a quarter of the runs, one side)
    react_kind = tape.pick((None, None, None, "made", "data", "lost"), "react")
    react_side = tape.pick(("A", "B"), "react_side")

    def make_react(c):
        def react(kind):
            if kind == react_kind and not c.close_called and \
                    not c.is_closed:
                sim.note("probe.close_from_subchannel_callback." + kind)
                c.do_close()
        return react

    def sub_ops(c):
        def do_connect(c=c):
            if getattr(c, "dilated", None) is None:
                return
            rec = ["connect", "pending", None, c.has("versions")]
            results[c.name].append(rec)
            # half of the applications keep their endpoint object around
            # and call connect() on it again (the usual Twisted idiom)
            if reuse_ep[c.name]:
                ep = ep_cache.get(c.name)
                if ep is None:
                    ep = ep_cache[c.name] = c.dilated.connector_for("p")
            else:
                ep = c.dilated.connector_for("p")
            d = ep.connect(RecFactory(owners[c.name], "p", "opener", pcls))
            d.addCallbacks(lambda p: rec.__setitem__(1, "ok"),
                           lambda f: (rec.__setitem__(1, "failed"),
                                      rec.__setitem__(2, f.type)))

        def do_listen(c=c):
            if getattr(c, "dilated", None) is None:
                return
            rec = ["listen", "pending", None, c.has("versions")]
            results[c.name].append(rec)
            d = c.dilated.listener_for("p").listen(
                RecFactory(owners[c.name], "p", "acceptor", pcls))
            d.addCallbacks(lambda p: rec.__setitem__(1, "ok"),
                           lambda f: (rec.__setitem__(1, "failed"),
                                      rec.__setitem__(2, f.type)))
        def do_write(c=c):
            # bulk data on every subchannel this side has open
            n = 0
            for p in owners[c.name].protocols:
                if p.made and not p.lost:
                    try:
                        p.transport.write(tape.blob(1, 7) * tape.pick(
                            (3000, 40000, 70000, 200000), "bulk"))
                    except Exception as e:
                        # (a subchannel already closed by the shutdown)
                        sim.note("probe.late_write_refused." +
                                 type(e).__name__)
                        continue
                    n += 1
            if n:
                sim.note("probe.bulk_write_before_close")
        def do_sub_close(c=c):
            # the application is done with one of its subchannels
            live = [p for p in owners[c.name].protocols
                    if p.made and not p.lost and not p.closed_local]
            if live:
                p = tape.pick(live, "subclose")
                try:
                    if pcls is HalfRecProtocol:
                        p.transport.loseWriteConnection()
                    else:
                        p.transport.loseConnection()
                    p.closed_local = True
                    sim.note("probe.subchannel_closed_by_application")
                except Exception as e:
                    sim.note("probe.sub_close_refused." + type(e).__name__)
        return {"sub_connect": do_connect, "sub_listen": do_listen,
                "sub_write": do_write, "sub_close": do_sub_close}
    w.extra_ops = {}
    if react_kind is not None:
        cl = a if react_side == "A" else b
        owners[cl.name].react = make_react(cl)
    ops_a, ops_b = sub_ops(a), sub_ops(b)

    def dispatch(kind):
        def run(c):
            (ops_a if c is a else ops_b)[kind]()
        return run
    w.extra_ops = {"sub_connect": dispatch("sub_connect"),
                   "sub_listen": dispatch("sub_listen"),
                   "sub_write": dispatch("sub_write"),
                   "sub_close": dispatch("sub_close")}
    backpressure = bool(opts.get("backpressure")) or \
        opts.get("focus") == "abandon"
    if backpressure:
        sim.net.autoflush = False
        sim.net.high_water = tape.pick((1000, 65536), "hw")
        sim.net.window = tape.pick((2000, 100000, 1 << 30), "win")
        sim.note("probe.staged_transport")

    bulk = backpressure or opts.get("focus") == "silent"

    def script(c, dilates):
        ops = [("set_code", code)]
        extra = []
        if dilates:
            extra.append(("dilate", {"no_listen": bool(tape.choose(4, "nl")
                                                       == 0)}))
            for _ in range(tape.choose(4, "nsub")):
                extra.append((tape.pick(("sub_connect", "sub_listen"), "so"),))
            if bulk:
                extra += [("sub_connect",), ("sub_listen",)]
        ops = ca.interleave(tape, ops, extra)
        # dilate must precede the subchannel ops
        if dilates:
            i = [k for k, o in enumerate(ops) if o[0] == "dilate"][0]
            subs = [o for o in ops if o[0].startswith("sub_")]
            ops = [o for o in ops if not o[0].startswith("sub_")]
            i = [k for k, o in enumerate(ops) if o[0] == "dilate"][0]
            for o in subs:
                ops.insert(i + 1 + tape.choose(len(ops) - i, "sp"), o)
        if dilates and tape.choose(3, "late_dilate") == 0:
            # dilate() only once the peer's versions are in (an application
            # that looks at get_versions() first)
            i = [k for k, o in enumerate(ops) if o[0] == "dilate"][0]
            ops.insert(i, ("wait_event_or_steps", "versions", 400))
        ev = tape.pick(("code", "key", "verifier", "versions", "closed"), "wev")
        ops.append(("wait_event_or_steps", ev, tape.choose(400, "ws")))
        if tape.choose(2, "linger"):
            ops.append(("wait_steps", tape.choose(120, "ls")))
        if dilates and bulk:
            # the application writes its data and closes the wormhole
            ops.append(("wait_event_or_steps", "versions", 400))
            ops.append(("wait_steps", 20 + tape.choose(200, "bw")))
            ops.append(("sub_write",))
            if tape.choose(2, "linger2"):
                ops.append(("wait_steps", tape.choose(60, "ls2")))
        if dilates and tape.choose(2, "subclose?") == 0:
            # one side's application closes a subchannel some time before
            # the wormhole is closed (the peer's end, if half-closeable, is
            # then read-closed and may still be writing)
            ops.append(("wait_event_or_steps", "versions", 400))
            ops.append(("wait_steps", 10 + tape.choose(120, "scw")))
            ops.append(("sub_close",))
            ops.append(("wait_steps", tape.choose(60, "scw2")))
        ops.append(("close",))
        if dilates and bulk and tape.choose(2, "late_write") == 0:
            # ... and goes on writing on its subchannels until it is told
            # that the wormhole has closed
            ops.append(("sub_write",))
        if dilates and tape.choose(3, "after") == 0:
            ops.append(("sub_connect",))
        return ops
    a.script = script(a, True)
    b.script = script(b, peer_kind == "dilates")
    ca.pick_faults(tape, w, ("cut", "server_restart"), 2)
    # peer-link cuts
    l2cuts = [tape.choose(3, "l2cuts")]
    if opts.get("focus") == "abandon":
        l2cuts = [2 + tape.choose(3, "l2cuts_f")]

    half_dead = []

    def l2cut(l):
        l2cuts[0] -= 1
        # the loss is seen by both ends, or by one end first (the other
        # learns later: RECONNECT may reach a Follower that still believes
        # in its connection -> ABANDONING)
        tell = tape.pick((("c", "s"), ("c", "s"), ("c",), ("s",)), "l2tell")
        if opts.get("focus") == "abandon":
            tell = tape.pick((("c",), ("s",)), "l2tell_f")
        sim.net.cut(l, tell)
        if len(tell) == 1:
            half_dead.append(l)
            sim.note("fault.l2cut_one_sided")

    bh_budget = [1 if tape.choose(3, "l2bh") == 0 or
                 opts.get("focus") == "silent" else 0]

    def l2blackhole(l):
        bh_budget[0] -= 1
        l.blackhole = True
        sim.note("fault.l2_blackhole")

    def extra_faults():
        evs = []
        for l in half_dead:
            if any(e.alive and e.made and e.lost_pending is None
                   for e in l.ends):
                evs.append(("l2reveal:%d" % l.serial,
                            lambda l=l: (half_dead.remove(l),
                                         sim.net.reveal(l))))
        if bh_budget[0] > 0:
            # the path goes silent: bytes vanish in both directions and no
            # end is ever told (it stays that way: closing must not depend
            # on the peer being heard from again)
            for link in sim.net.links:
                if link.mode == "stream" and link.up and not link.blackhole \
                        and all(e.alive and e.made for e in link.ends):
                    evs.append(("l2blackhole:%d" % link.serial,
                                lambda l=link: l2blackhole(l), 2))
        if l2cuts[0] <= 0:
            return evs
        for link in sim.net.links:
            if link.mode == "stream" and link.up and \
                    any(e.alive and e.made for e in link.ends):
                evs.append(("l2cut:%d" % link.serial,
                            lambda l=link: l2cut(l), 3))
        return evs
    w.extra_fault_events = extra_faults
    w.fault_budget = max(w.fault_budget, 1)
    if opts.get("focus") == "abandon":
        # the mailbox connections stay up; the budget is there for the
        # peer-link cuts only
        w.fault_kinds = ()
        w.fault_budget = 8
    close_state = {}

    def before_op(c, op):
        if op[0] == "close":
            m = c.w._boss._D._manager
            close_state[c.name] = (m is not None,
                                   m is not None and hasattr(m, "_connector"),
                                   m is not None and m._connection is not None)
    w.before_op = before_op
    viol = []

    def V(key, clause, detail):
        if not viol:
            viol.append({"key": key, "clause": clause, "detail": detail})

    # focus 'abandon': the application's close() lands right when its
    # Manager has been told to give up a connection it still believed in
    traced = {}
    abandoning = []

    def watch_abandoning():
        for c in (a, b):
            m = c.w._boss._D._manager
            if m is not None and c.name not in traced:
                traced[c.name] = True

                def tr(old, inp, new, c=c):
                    if new == "ABANDONING":
                        abandoning.append(c)
                try:
                    m.set_trace(tr)
                except Exception:
                    pass
        while abandoning:
            c = abandoning.pop()
            if not c.close_called and tape.choose(3, "close_now"):
                sim.note("probe.close_while_abandoning")
                c.do_close()
    if opts.get("focus") == "abandon":
        sim.after_step = watch_abandoning
    if opts.get("focus") == "silent":
        # the path goes silent a little while after both sides are connected
        silent_after = [None, tape.choose(60, "silent_after")]

        def watch_silent():
            if bh_budget[0] <= 0:
                return
            ms = [c.w._boss._D._manager for c in (a, b)]
            if any(m is None or m._connection is None for m in ms):
                return
            if silent_after[0] is None:
                silent_after[0] = sim.steps + silent_after[1]
            if sim.steps >= silent_after[0]:
                for link in sim.net.links:
                    if link.mode == "stream" and link.up and \
                            not link.blackhole and \
                            all(e.alive and e.made for e in link.ends):
                        link.blackhole = True
                bh_budget[0] = 0
                sim.note("fault.l2_blackhole")
                sim.ev("peer_links_silent")
        sim.after_step = watch_silent

    def done():
        return all(c.is_closed for c in (a, b)) and w.scripts_done()
    sim.run(6000, until=done)
    w.heal()
    l2cuts[0] = 0
    steps0, t0 = sim.steps, sim.now()
    r = sim.run(8000, until=done, max_time=600)
    if r != "until":
        pend = [c.name for c in (a, b) if c.close_called and not c.is_closed]
        if pend:
            l2 = []
            for c in (a, b):
                m = c.w._boss._D._manager
                if c.name not in pend or m is None:
                    continue
                for link in sim.net.links:
                    for end in link.ends:
                        p = unwrap(end.protocol) if end.protocol else None
                        if isinstance(p, DilatedConnectionProtocol) and \
                                p._connector._manager is m and end.alive:
                            t = end.transport
                            l2.append("%s link %d: closing=%s unsent=%d "
                                      "producer=%s paused=%s peer_alive=%s" %
                                      (c.name, link.serial,
                                       bool(t.disconnecting),
                                       end.sendbuf_len(),
                                       type(t.producer).__name__,
                                       t.producerPaused, end.peer.alive))
            V("C17.close_hangs", "closing a wormhole on which dilate() was "
              "called always completes",
              "after heal: %s after %d events / %.0f s; close() pending on %r "
              "(peer kind %s; manager state at close: %r); its peer "
              "connections: %s" %
              (r, sim.steps - steps0, sim.now() - t0, pend, peer_kind,
               close_state, "; ".join(l2) or "none"))
    else:
        sim.run(3000, max_time=150)
        for c in (a, b):
            m = c.w._boss._D._manager
            if m is None:
                continue
            for port, lp in list(sim.net.listeners.items()):
                conn = getattr(lp.factory, "_connector", None)
                if conn is not None and conn._manager is m:
                    V("C17.listener_left", "listeners are shut down",
                      "%s still listens on port %d after closed" %
                      (c.name, port))
            for att in sim.net.attempts:
                f = getattr(att.connector.factory, "_wrappedFactory",
                            att.connector.factory)
                conn = getattr(f, "_connector", None)
                if conn is not None and conn._manager is m:
                    V("C17.attempt_left", "pending attempts are shut down",
                      "%s still has a connect attempt to %s:%s" %
                      (c.name, att.host, att.port))
            for link in sim.net.links:
                for end in link.ends:
                    p = unwrap(end.protocol) if end.protocol else None
                    if not isinstance(p, DilatedConnectionProtocol) or \
                            p._connector._manager is not m:
                        continue
                    if end.alive and not end.transport.disconnecting:
                        if p._manager is not None:
                            V("C17.active_connection_left", "the active "
                              "connection is shut down", "%s: selected link "
                              "%d still open after closed" %
                              (c.name, link.serial))
                        elif end.role == "c":
                            V("C17.outbound_left", "pending attempts are shut "
                              "down", "%s: outbound link %d still open after "
                              "closed" % (c.name, link.serial))
                        else:
                            sim.note("probe.unselected_inbound_left_open")
            if m._timer is not None and m._timer.active():
                V("C17.timer_left", "no timer of the Manager remains",
                  "%s: ping timer pending after closed" % c.name)
    if not viol and peer_kind == "old_peer":
        # A saw B's versions (if it did): all its connect()/listen() must fail
        if a.has("versions"):
            for rec in results["A"]:
                if rec[1] == "pending":
                    V("C17.old_peer_hangs", "if the peer's versions show it "
                      "cannot dilate, pending and future subchannel connect() "
                      "calls fail with OldPeerCannotDilateError instead of "
                      "hanging", "%s() issued %s versions never fired" %
                      (rec[0], "after" if rec[3] else "before"))
                elif rec[1] == "ok" or rec[2] is not OldPeerCannotDilateError:
                    V("C17.old_peer_wrong_result", "connect() fails with "
                      "OldPeerCannotDilateError", "%s() -> %s %r" %
                      (rec[0], rec[1], rec[2]))
    w.finish()
    for etype, text, why in w.log.errors:
        sim.note("logged." + etype)
    nontrivial = any(v[1] for v in close_state.values()) or \
        peer_kind == "old_peer"
    for n, v in close_state.items():
        sim.note("close_state.mgr%d_connector%d_connected%d" %
                 tuple(int(x) for x in v))
    return ca.result(sim, w, viol[0] if viol else None, nontrivial, seed,
                     extra_sample={"peer_kind": peer_kind,
                                   "subchannel_calls": {k: [r[:2] for r in v]
                                                        for k, v in
                                                        results.items()}})


if __name__ == "__main__":
    import sys
    sys.exit(runner.main(sys.modules[__name__]))
