"""C06 - transit delivers exactly the records sent, or drops the connection."""
from simlib import boot  # noqa: F401
from simlib import runner
from simlib.core import HarnessError
from worlds.transit import TransitWorld, unwrap

from zope.interface import implementer
from twisted.internet import interfaces

PROP = "C06"
LEVEL = "fault_enumeration"
QUICK_S = 40
THOROUGH_S = 900
TECHNIQUE = ("deterministic simulation of one established transit connection "
             "(real connect() on both sides) under every TCP chunking the "
             "scheduler picks, with a framing-aware man-in-the-middle whose "
             "single-point manipulations are enumerated per record index; "
             "prefix/drop oracle on receive_record() and consumer output")
RULE_EAGER = (" In a third of the seeded runs the sender passes its first 1..4 "
              "records to send_record() in the turn in which its connect() "
              "fires (they travel right behind 'go' and may share a read with "
              "it); in half of those nothing else follows in that direction.")
RULE = ("Enumerated part: for a fixed record list (sizes 0,1,16,4096,65536,"
        "70000,5) every record index x direction x operation in {flip a byte "
        "of the length prefix / nonce / ciphertext / tag, delete, duplicate, "
        "swap with next, replay an earlier record, truncate inside + cut, "
        "inject a fabricated frame, cut before}. Seeded part: one evaluation "
        "= one simulated execution with tape-chosen record counts (0..40) and "
        "sizes in both directions, reader modes (receive_record issued before "
        "or after arrival; consumer attached at any time, with or without "
        "`expected`), chunking and at most one manipulation. Non-trivial: at "
        "least two records in some direction and (a manipulation fired or a "
        "record was delivered in more than one chunk). Distinct: event-log "
        "digests among non-trivial runs.")
RULE += (' Transport variants: plain TCP, and one that keeps delivering in-flight data between loseConnection() and connectionLost. Readers: eager, lazy (first read after the peer is done), consumers with expected=N incl. 0; the sender may close in an orderly way after its last record.')
RULE += (' In a third of the sampled runs 61..600 simulated seconds pass on the established connection (an application that keeps the pipe open).')
RULE += (' Half of the sampled runs use slow consumers which pause their producer from inside write() and resume when the scheduler says so.')
RULE += (' 1/24 of the sampled runs send 1000..2500 tiny records to a receiver that is busy meanwhile (reads are at most 64 KiB).')
RULE += RULE_EAGER
RULE += (" Half of the long runs have a reader that falls 130..250 records behind, takes the first 1..3 with receive_record() and hands the rest of the stream to a consumer.")
LEVEL_TEXT = ("Fault enumeration over manipulation points of a fixed stream "
              "plus seeded exploration of streams/chunkings/reader modes. "
              "Oracle: what the reader obtains is always a prefix of the "
              "records passed to send_record, each whole; nothing at or after "
              "a manipulated record is delivered; once the manipulated "
              "frame's claimed length has arrived the connection has been "
              "dropped and every pending read / consumer Deferred has failed.")
LEVEL_NOTE = ("Real transit.Common/Connection and PyNaCl; TCP simulated. The "
              "adversary knows the framing and sees all bytes but has no key.")
ASSUMPTIONS = ["simulated TCP transport contract (DESIGN.md 2.3); a second "
               "transport variant keeps reading after loseConnection()"]
COMPONENTS = {"real": ["wormhole.transit (TransitSender/Receiver/Connection)",
                       "PyNaCl SecretBox", "Twisted endpoints"],
              "stub": ["kernel TCP (simulated byte streams)"]}

SIZES = (0, 1, 15, 16, 17, 4095, 4096, 4097, 65535, 65536, 70000)
FIXED = (0, 1, 16, 4096, 65536, 70000, 5)
OPS = ("flip_len", "flip_nonce", "flip_ct", "flip_tag", "delete", "dup",
       "swap", "replay", "truncate", "inject", "cut", "reflect")


def sweep(tier):
    out = []
    for direction in ("s2r", "r2s"):
        for k in range(len(FIXED)):
            for op in OPS:
                out.append({"fixed": True, "tamper": [direction, k, op],
                            "reader": ("read", "consumer")[k % 2],
                            "late_read": False})
                out.append({"fixed": True, "tamper": [direction, k, op],
                            "reader": ("read", "consumer")[(k + 1) % 2],
                            "late_read": True})
    return out


def configs(tier):
    return [{"fixed": False}]


@implementer(interfaces.IConsumer)
class Collector:
    # a slow consumer: may pause its producer from inside write() (set by
    # run_one: pause_now() -> bool), resumed later by a scheduler event
    pause_now = None

    def __init__(self):
        self.records = []
        self.producer = None
        self.paused = False

    def registerProducer(self, producer, streaming):
        self.producer = producer

    def unregisterProducer(self):
        self.producer = None

    def write(self, data):
        self.records.append(data)
        if self.pause_now is not None and self.producer is not None and \
                not self.paused and self.pause_now():
            self.paused = True
            self.resume_target = self.producer
            self.producer.pauseProducing()


class Mitm:
    """Framing-aware man in the middle for one direction."""

    def __init__(self, world, k, op, tape, base=0):
        self.w = world
        self.k = k
        self.op = op
        self.tape = tape
        self.buf = bytearray()
        self.base = base        # records that passed before it stepped in
        self.n = base
        self.held = None
        self.seen = []
        self.fired = False
        self.cut_after = False
        self.claimed_end = None    # output offset at which frame k' ends
        self.out_total = 0
        self.seen_all = []
        self.opposite = None

    def feed(self, data):
        self.buf += data
        out = bytearray()
        while True:
            if len(self.buf) < 4:
                break
            ln = int.from_bytes(self.buf[:4], "big")
            if len(self.buf) < 4 + ln:
                break
            frame = bytes(self.buf[:4 + ln])
            del self.buf[:4 + ln]
            out += self.on_frame(frame)
        self.out_total += len(out)
        return bytes(out)

    def on_frame(self, frame):
        i = self.n
        self.n += 1
        self.seen.append(frame)
        self.seen_all.append(frame)
        if self.held is not None:          # swap: emit this one, then held
            h, self.held = self.held, None
            self.mark(len(frame))
            return frame + h
        if i != self.k or self.fired:
            return frame
        op = self.op
        self.fired = True
        t = self.tape
        body = bytearray(frame)
        if op == "flip_len":
            pos = t.choose(4, "flpos")
            body[pos] ^= 1 << t.choose(8, "flbit")
            claimed = int.from_bytes(body[:4], "big")
            self.mark(4 + claimed)
            return bytes(body)
        if op in ("flip_nonce", "flip_ct", "flip_tag"):
            n = len(frame) - 4
            if op == "flip_nonce":
                pos = 4 + t.choose(24, "fnpos")
            elif op == "flip_tag":
                # SecretBox: nonce(24) | tag(16) | ciphertext
                pos = 4 + 24 + t.choose(16, "ftpos")
            else:
                if n <= 40:
                    pos = 4 + 24 + t.choose(16, "ftpos")
                else:
                    pos = 4 + 40 + t.choose(n - 40, "fcpos")
            body[pos] ^= 1 << t.choose(8, "fbit")
            self.mark(len(frame))
            return bytes(body)
        if op == "delete":
            self.mark_next = True
            return b""
        if op == "dup":
            self.mark(2 * len(frame))
            self.dup_first_ok = True
            return frame + frame
        if op == "swap":
            self.held = frame
            return b""
        if op == "replay":
            if i == self.base:
                self.fired = False
                self.op = "dup"
                self.n -= 1
                self.seen.pop()
                return self.on_frame(frame)
            old = self.seen[t.choose(i - self.base, "rpi")]
            self.mark(len(old))
            return old + frame
        if op == "truncate":
            cutpos = 1 + t.choose(len(frame) - 1, "tpos") if len(frame) > 1 \
                else 1
            self.cut_after = True
            return frame[:cutpos]
        if op == "inject":
            fake = t.blob(24 + 16 + t.choose(50, "injlen"), 4)
            fake = len(fake).to_bytes(4, "big") + fake
            self.mark(len(fake))
            return fake + frame
        if op == "cut":
            self.cut_after = True
            return b""
        if op == "reflect":
            # a frame of the opposite direction with the same index (same
            # nonce counter) put in place of this one
            other = self.opposite.seen_all
            oi = i - self.opposite.base
            if oi < 0 or len(other) <= oi:
                self.fired = False
                return frame
            self.mark(len(other[oi]))
            return other[oi]
        raise HarnessError(op)

    def mark(self, nbytes):
        # output offset by which the receiver has the whole manipulated frame
        self.claimed_end = self.out_total + nbytes


def run_one(seed, tape, opts):
    w = TransitWorld(tape, opts)
    sim = w.sim
    sim.allow_advance = False     # no deadline is part of this property
    s_listens = tape.choose(2, "who_listens") == 0
    S = w.make("S", True, no_listen=not s_listens)
    R = w.make("R", False, no_listen=s_listens)
    S.t.set_transit_key(w.key)
    R.t.set_transit_key(w.key)
    hs, hr = w.hints_of(S), w.hints_of(R)
    R.t.add_connection_hints(hs)
    S.t.add_connection_hints(hr)
    # an eager sender passes its first records to send_record() in the very
    # turn in which connect() fires: they travel right behind "go" and may
    # reach the receiver in the same read (the handshake/record boundary)
    eager = []
    if not opts.get("fixed") and tape.choose(3, "eager") == 0:
        eager = [tape.blob(tape.pick((0, 1, 5, 300, 16384, 70000), "esz"),
                           900 + i)
                 for i in range(1 + tape.choose(4, "eager_n"))]
    S.connect()
    R.connect()
    if eager:
        def send_eager(_):
            if S.result and S.result[0] == "ok":
                for b in eager:
                    S.result[1].send_record(b)
                sim.note("probe.records_sent_in_the_turn_of_go")
        S.connect_d.addCallback(send_eager)
    r = sim.run(3000, until=lambda: S.result and R.result, max_time=200)
    if r != "until" or S.result[0] != "ok" or R.result[0] != "ok":
        raise HarnessError("setup: transit connection not established: %r %r"
                           % (S.result, R.result))
    cs, cr = S.result[1], R.result[1]
    es, er = w.end_of_connection(cs), w.end_of_connection(cr)
    if es is None or er is None or es.link is not er.link:
        raise HarnessError("setup: results are not two ends of one link")
    link = es.link
    if eager:
        # let the eager records arrive before the man in the middle steps in
        # (its byte accounting starts at a frame boundary)
        r = sim.run(3000, until=lambda: not es.sendbuf and not er.inflight,
                    max_time=200)
        if r != "until":
            raise HarnessError("setup: eager records still in flight")
    # transport variant: does the transport go on delivering what is already
    # in flight after loseConnection() (legal for an ITransport, e.g. TLS or a
    # wrapping protocol; plain TCP stops reading)? transit.Connection has its
    # own 'hung up' guard for exactly that
    if opts.get("late_read", tape.choose(3, "late_read") == 0):
        sim.net.read_after_lose = True
        sim.note("probe.transport_reads_after_loseConnection")
    # workload
    burst_dir = []
    if opts.get("fixed"):
        recs = {"s2r": [tape.blob(n, i) for i, n in enumerate(FIXED)],
                "r2s": [tape.blob(n, 100 + i) for i, n in enumerate(FIXED)]}
        tamper = opts.get("tamper")
        readers = {"s2r": opts.get("reader", "read"),
                   "r2s": opts.get("reader", "read")}
    else:
        recs = {}
        for d in ("s2r", "r2s"):
            n = tape.choose(13, "nrec") if tape.choose(4, "many") else \
                tape.choose(41, "nrec2")
            if tape.choose(8, "backlog") == 0:
                # a long run of small records (a reader that lags far behind)
                n = 60 + tape.choose(120, "nrec3")
            recs[d] = [tape.blob(tape.pick(SIZES, "sz") if
                                 tape.choose(3, "big") == 0 and n < 60 else
                                 tape.choose(40, "small"), i)
                       for i in range(n)]
        if tape.choose(24, "burst") == 0:
            # scale: a burst of 1000..2500 tiny records in one direction,
            # coalesced into the largest reads a transport makes (64 KiB)
            d = tape.pick(("s2r", "r2s"), "burst_d")
            tiny = [b"", b"x", b"ab"]
            recs[d] = [tiny[i % 3] for i in
                       range(1000 + tape.choose(1500, "burst_n"))]
            sim.chunk_mode = "all"
            sim.note("probe.burst_of_tiny_records")
            burst_dir.append(d)
        tamper = None
        if tape.choose(3, "tamper?"):
            d = tape.pick(("s2r", "r2s"), "td")
            if recs[d]:
                tamper = [d, tape.choose(len(recs[d]), "tk"),
                          tape.pick(OPS, "top")]
        readers = {"s2r": tape.pick(("read", "consumer", "consumer_exp"),
                                    "rd1"),
                   "r2s": tape.pick(("read", "consumer", "consumer_exp"),
                                    "rd2")}
        for d_ in ("s2r", "r2s"):
            # a reader that falls far behind (130..250 records waiting), takes
            # the first few with receive_record() - a header - and hands the
            # rest of the stream to a consumer
            if len(recs[d_]) >= 60 and d_ not in burst_dir and \
                    tape.choose(2, "rtc") == 0:
                recs[d_] = recs[d_] + [tape.blob(tape.choose(40, "rtc_sz"),
                                                 500 + i)
                                       for i in range(70 + tape.choose(
                                           70, "rtc_n"))]
                readers[d_] = "read_then_consumer"
    if eager:
        if tape.choose(2, "eager_only") == 0 and "s2r" not in burst_dir:
            # nothing follows: what is stranded behind "go" stays stranded
            recs["s2r"] = []
            if tamper and tamper[0] == "s2r":
                tamper = None
        recs["s2r"] = eager + recs["s2r"]
        if tamper and tamper[0] == "s2r":
            tamper[1] += len(eager)
    conns = {"s2r": (cs, cr, er), "r2s": (cr, cs, es)}
    rx_end = {"s2r": er, "r2s": es}
    mitm = {"s2r": Mitm(w, -1, None, tape, len(eager)),
            "r2s": Mitm(w, -1, None, tape)}
    if tamper:
        mitm[tamper[0]] = Mitm(w, tamper[1], tamper[2], tape,
                               len(eager) if tamper[0] == "s2r" else 0)
    mitm["s2r"].opposite, mitm["r2s"].opposite = mitm["r2s"], mitm["s2r"]
    def link_tamper(end_to, data):
        d = "s2r" if end_to is er else "r2s"
        m = mitm.get(d)
        if m is None:
            return data
        out = m.feed(data)
        if m.cut_after:
            # deliver what was emitted, then the line goes dead
            m.cut_after = False
            end_to.inflight += out
            sim.note("fault.stream_cut")
            sim.net.cut(link)
            return b""
        return out
    link.tamper = link_tamper

    # per direction state
    st = {}
    for d in ("s2r", "r2s"):
        tx, rx, rend = conns[d]
        st[d] = {"sent": len(eager) if d == "s2r" else 0, "got": [], "reads": [], "read_fail": 0,
                 "consumer": None, "cdef": None, "cdef_state": None,
                 "mode": readers[d], "attached": False, "multi_chunk": False,
                 "expected_n": None, "rx_base": rx_end[d].rx_count}

    for d_ in burst_dir:
        # the receiving host is busy while the burst is being sent: the
        # kernel buffers, the next reads are as large as reads get
        rx_end[d_].stalled = True

    def send_next(d):
        tx = conns[d][0]
        i = st[d]["sent"]
        st[d]["sent"] += 1
        if d in burst_dir and st[d]["sent"] >= len(recs[d]):
            rx_end[d].stalled = False
        try:
            tx.send_record(recs[d][i])
        except Exception as e:
            raise HarnessError("send_record raised %r" % (e,))

    def issue_read(d):
        rx = conns[d][1]
        rec = {"state": "pending", "alive_at_issue": rx_end[d].alive,
               "queued_at_issue": len(rx._inbound_records)}
        st[d]["reads"].append(rec)
        dfr = rx.receive_record()

        def ok(v):
            rec["state"] = "ok"
            st[d]["got"].append(v)

        def bad(f):
            rec["state"] = "failed"
            st[d]["read_fail"] += 1
            if rec["queued_at_issue"]:
                # a record that arrived whole and authenticated before the
                # connection ended is still obtained by the next read
                V("C06.queued_record_not_delivered", "the receiver obtains "
                  "exactly the records passed to send_record (a late or slow "
                  "reader included)", "%s: receive_record() failed with %s "
                  "although %d record(s) were already queued" %
                  (d, f.type.__name__, rec["queued_at_issue"]))
        dfr.addCallbacks(ok, bad)

    def attach(d):
        rx = conns[d][1]
        s = st[d]
        s["attached"] = True
        s["attached_alive"] = rx_end[d].alive
        col = Collector()
        col.pause_now = pause_now
        s["consumer"] = col
        exp = None
        if s["mode"] == "consumer_exp" and recs[d]:
            m = 1 + tape.choose(len(recs[d]), "expm")
            if tape.choose(5, "exp0") == 0:
                m = 0          # expected=0: "the Deferred will fire right away"
            exp = sum(len(x) for x in recs[d][:m])
            s["expected_n"] = m
            s["exp"] = exp
        try:
            dfr = rx.connectConsumer(col, expected=exp)
        except Exception as e:
            raise HarnessError("connectConsumer raised %r" % (e,))
        if dfr is not None:
            s["cdef_state"] = "pending"

            chain = exp is not None and exp > 0 and \
                tape.choose(3, "chain") == 0

            def ok(v):
                s["cdef_state"] = "ok"
                s["cdef_value"] = v
                if chain and rx_end[d].alive:
                    # the application goes straight on, from inside the
                    # completion callback, to the next part of the stream
                    # (back-to-back files): a second consumer, no byte budget
                    col2 = Collector()
                    col2.pause_now = pause_now
                    try:
                        rx.connectConsumer(col2)
                        s["consumer2"] = col2
                        sim.note("probe.second_consumer_attached_in_callback")
                    except Exception as e:
                        V("C06.second_consumer_refused", "the receiver "
                          "obtains exactly the records sent (consumer mode: "
                          "one file after the other on one connection)",
                          "%s: connectConsumer() called from the first "
                          "consumer's completion callback raised %r" % (d, e))

            def bad(f):
                s["cdef_state"] = "failed"
            dfr.addCallbacks(ok, bad)

    lazy = {d: (not opts.get("fixed")) and tape.choose(4, "lazy") == 0
            for d in ("s2r", "r2s")}
    rtc_reads = {}
    for d in ("s2r", "r2s"):
        if st[d]["mode"] == "read_then_consumer":
            lazy[d] = True
            rtc_reads[d] = 1 + tape.choose(3, "rtc_k")
            sim.note("probe.read_then_consumer")
    orderly = [(not opts.get("fixed")) and tape.choose(3, "orderly") == 0]

    def all_sent():
        return all(st[x]["sent"] >= len(recs[x]) for x in ("s2r", "r2s"))

    # an application that keeps the pipe open between bursts: once per run
    # (a third of the runs) 61..600 simulated seconds pass on the established
    # connection; no deadline may end an established Transit connection
    idle = [61.0 + tape.choose(540, "idle_s")
            if tape.choose(3, "idle") == 0 else None]

    # slow consumers (half of the runs): pause from inside write(), resume
    # when the scheduler says so
    slow = tape.choose(2, "slow_consumer") == 0
    pause_budget = [6]

    def pause_now():
        if not slow or pause_budget[0] <= 0:
            return False
        if tape.choose(3, "pause?") != 0:
            return False
        pause_budget[0] -= 1
        sim.note("probe.consumer_paused_producer")
        return True

    def resume(col):
        col.paused = False
        sim.ev("consumer_resume")
        try:
            # (also after the library unregistered it meanwhile: the
            # consumer resumes what it paused)
            col.resume_target.resumeProducing()
        except Exception as e:
            # (whatever escapes here is logged by a real reactor; the
            # delivery oracles below decide)
            sim.note("probe.resumeProducing_raised." + type(e).__name__)

    def paused_collectors():
        out = []
        for d_ in ("s2r", "r2s"):
            for k in ("consumer", "consumer2"):
                col = st[d_].get(k) if d_ in st else None
                if col is not None and col.paused:
                    out.append(col)
        return out

    def app_events():
        evs = []
        for col in paused_collectors():
            evs.append(("resume", lambda col=col: resume(col)))
        if idle[0] is not None:
            def pause():
                dt, idle[0] = idle[0], None
                sim.ev("idle", dt)
                sim.note("probe.idle_%s" % ("1-2min" if dt < 120 else "2-10min"))
                sim.reactor.rightNow += dt
            evs.append(("idle", pause))
        if orderly[0] and all_sent() and cs.transport.connected and \
                not cs.transport.disconnecting and \
                len(delivered("r2s")) + len(cs._inbound_records) >= \
                len(recs["r2s"]):
            # the sending application is done and closes normally: everything
            # written is flushed before the FIN
            def close_now():
                orderly[0] = False
                sim.ev("orderly_close")
                sim.note("probe.orderly_close_after_last_record")
                cs.transport.loseConnection()
            evs.append(("close", close_now))
        for d in ("s2r", "r2s"):
            s = st[d]
            if lazy[d] and s["mode"] in ("read", "read_then_consumer") and \
                    rx_end[d].alive and not all_sent():
                # a late reader: first read only when the peer is done
                if s["sent"] < len(recs[d]) and \
                        conns[d][0].transport.connected and \
                        not conns[d][0].transport.disconnecting:
                    evs.append(("send:" + d, lambda d=d: send_next(d)))
                continue
            if s["sent"] < len(recs[d]) and conns[d][0].transport.connected \
                    and not conns[d][0].transport.disconnecting:
                evs.append(("send:" + d, lambda d=d: send_next(d)))
            pending = sum(1 for x in s["reads"] if x["state"] == "pending")
            if s["mode"] == "read_then_consumer":
                if len(s["reads"]) < rtc_reads[d]:
                    if pending == 0:
                        evs.append(("read:" + d, lambda d=d: issue_read(d)))
                elif pending == 0 and not s["attached"]:
                    evs.append(("attach:" + d, lambda d=d: attach(d)))
                continue
            if s["mode"] == "read" or (s["attached"] and
                                       s["cdef_state"] == "ok" and
                                       s.get("consumer2") is None):
                if pending < 3 and len(s["reads"]) < len(recs[d]) + 2:
                    evs.append(("read:" + d, lambda d=d: issue_read(d)))
            elif not s["attached"]:
                evs.append(("attach:" + d, lambda d=d: attach(d)))
        return evs
    sim.app_events = app_events
    viol = []

    def V(key, clause, detail):
        if not viol:
            viol.append({"key": key, "clause": clause, "detail": detail})

    def delivered(d):
        s = st[d]
        out = []
        if s["mode"] == "read_then_consumer":
            out.extend(s["got"])
            if s["consumer"] is not None:
                out.extend(s["consumer"].records)
            return out
        if s["consumer"] is not None:
            cr = s["consumer"].records
            if s.get("exp") == 0 and cr[:1] == [b""]:
                cr = cr[1:]    # the documented empty kick record
            out.extend(cr)
            if s.get("consumer2") is not None:
                out.extend(s["consumer2"].records)
            if s["expected_n"] is not None and s["expected_n"] and \
                    s["cdef_state"] != "ok" and False:
                pass
        # consumer_exp with expected==0 edge: transit writes b"" kick
        out.extend(s["got"])
        return out

    def oracle():
        for d in ("s2r", "r2s"):
            got = delivered(d)
            s = st[d]
            lim = len(recs[d])
            m = mitm.get(d)
            if m is not None and m.fired:
                lim = m.k + (1 if getattr(m, "dup_first_ok", False) else 0)
                if m.op == "swap":
                    lim = m.k
                if m.op == "replay" or m.op == "inject":
                    lim = m.k
            if s.get("exp") is not None and s["cdef_state"] == "ok" and \
                    not (m is not None and m.fired):
                # a consumer with a byte budget takes exactly the shortest
                # run of records that reaches it (none at all for 0), and its
                # Deferred reports what it was given
                exp = s["exp"]
                tot, need = 0, 0
                while tot < exp and need < len(recs[d]):
                    tot += len(recs[d][need])
                    need += 1
                want_c = ([b""] if exp == 0 else []) + recs[d][:need]
                have_c = s["consumer"].records
                if have_c != want_c or s.get("cdef_value") != sum(
                        len(x) for x in have_c):
                    V("C06.consumer_took_wrong_records", "the receiver obtains "
                      "exactly the records passed to send_record, each whole "
                      "and in order (a consumer expecting E bytes takes the "
                      "shortest run of records reaching E and nothing more)",
                      "%s: expected=%d: consumer was given sizes %r, should "
                      "be %r; its Deferred fired with %r" %
                      (d, exp, [len(x) for x in have_c],
                       [len(x) for x in want_c], s.get("cdef_value")))
                    return
            if got != recs[d][:len(got)]:
                V("C06.not_prefix", "the receiver obtains exactly the records "
                  "passed to send_record, each whole and in order",
                  "%s: delivered %d records, first difference at %d (sizes "
                  "got %r sent %r) tamper=%r" %
                  (d, len(got), _firstdiff(got, recs[d]),
                   [len(x) for x in got][:8], [len(x) for x in recs[d]][:8],
                   tamper))
                return
            if len(got) > lim:
                V("C06.delivered_past_manipulation", "no altered or "
                  "out-of-order record, and nothing after the manipulation "
                  "point, is delivered", "%s: %d records delivered, "
                  "manipulation %r at record %d" % (d, len(got), m.op, m.k))
                return
    sim.after_step = oracle

    def all_done():
        if viol:
            return True
        for d in ("s2r", "r2s"):
            if st[d]["sent"] < len(recs[d]):
                return False
            if mitm[d].k < 0 and len(delivered(d)) < len(recs[d]):
                return False
        return not any(len(e.inflight) for e in link.ends)
    sim.run(20000, until=all_done, max_time=800)
    idle[0] = None
    slow = False
    for col in paused_collectors():
        resume(col)
    sim.chaos = False
    sim.run(3000, max_time=30)
    oracle()
    # completeness without manipulation, drop after manipulation
    for d in ("s2r", "r2s"):
        if viol:
            break
        m = mitm.get(d)
        s = st[d]
        rend = rx_end[d]
        other_m = mitm.get("r2s" if d == "s2r" else "s2r")
        if m is None or not m.fired:
            if other_m is None or not other_m.fired:
                if s["expected_n"] is not None and s["cdef_state"] != "ok":
                    V("C06.consumer_expected_never_fires", "connectConsumer("
                      "expected=N) fires once N bytes were written",
                      "%s: expected = first %d records, Deferred state %s" %
                      (d, s["expected_n"], s["cdef_state"]))
                if len(delivered(d)) != len(recs[d]):
                    V("C06.incomplete_without_fault", "without manipulation "
                      "every record is delivered", "%s: %d of %d (mode %s)" %
                      (d, len(delivered(d)), len(recs[d]), s["mode"]))
            continue
        # has the whole manipulated frame (by its claimed length) arrived?
        whole = False
        if m.claimed_end is not None:
            whole = (rend.rx_count - s.get("rx_base", 0)) >= m.claimed_end
        if m.op in ("delete",):
            # the gap shows when the next frame arrives
            whole = m.n > m.k + 1 and not len(rend.inflight)
        if m.op in ("truncate", "cut"):
            whole = True        # the link was cut
        if m.op == "swap":
            whole = m.held is None and not len(rend.inflight)
        if whole and not len(rend.inflight):
            t = rend.transport
            if rend.alive and not t.disconnecting:
                V("C06.not_dropped", "after a manipulation the connection is "
                  "dropped", "%s: op %s at record %d fully arrived but the "
                  "receiving connection is still open" % (d, m.op, m.k))
            pend = [x for x in s["reads"] if x["state"] == "pending" and
                    x["alive_at_issue"]]
            late = [x for x in s["reads"] if x["state"] == "pending" and
                    not x["alive_at_issue"]]
            if late:
                # receive_record() issued after connectionLost never fires;
                # the statement speaks of reads pending at the drop, so this
                # is counted, not gated (see DESIGN.md)
                sim.note("probe.read_issued_after_loss_never_fires")
            if pend and not rend.alive:
                V("C06.pending_read_not_failed", "pending reads fail when the "
                  "connection is dropped", "%s: %d receive_record() Deferreds "
                  "still pending" % (d, len(pend)))
            if s["cdef_state"] == "pending" and not rend.alive and \
                    not s.get("attached_alive", True):
                sim.note("probe.consumer_attached_after_loss_never_fires")
            elif s["cdef_state"] == "pending" and not rend.alive:
                V("C06.consumer_deferred_not_failed", "the consumer Deferred "
                  "errbacks when the connection is lost", d)
    w.finish()
    base0 = {}
    multi = any(e.rx_count for e in link.ends)
    nontrivial = max(len(recs["s2r"]), len(recs["r2s"])) >= 2 and \
        (bool(tamper and mitm[tamper[0]].fired) or
         sim.chunk_mode != "all")
    if tamper and mitm[tamper[0]].fired:
        sim.note("fault.stream_tamper." + tamper[2])
    for etype, text, why in w.log.errors:
        sim.note("logged." + etype)
    return {"violation": viol[0] if viol else None, "nontrivial": nontrivial,
            "digest": sim.hexdigest(), "trace": sim.trace,
            "stats": {"steps": sim.steps, "sim_s": sim.now() - 1000.0,
                      "notes": sim.notes},
            "sample": {"seed": seed, "records": {d: [len(x) for x in recs[d]]
                                                 [:12] for d in recs},
                       "tamper": tamper, "readers": readers,
                       "chunk_mode": sim.chunk_mode,
                       "delivered": {d: len(delivered(d)) for d in recs}}}


def _firstdiff(a, b):
    for i, x in enumerate(a):
        if i >= len(b) or x != b[i]:
            return i
    return len(a)


if __name__ == "__main__":
    import sys
    sys.exit(runner.main(sys.modules[__name__]))
