"""C19 - codes are well-formed with the promised entropy; code entry is
consistent."""
from simlib import boot  # noqa: F401
from simlib import runner
from simlib.core import HarnessError
from twisted.python.failure import Failure
from simlib.boot import RNG
from checks import common_a as ca
from worlds.mailbox import MailboxWorld
from wormhole import errors as E
from wormhole._wordlist import PGPWordList

PROP = "C19"
LEVEL = "exploration"
QUICK_S = 50
THOROUGH_S = 600
TECHNIQUE = ("deterministic simulation with the os.urandom seam owned: "
             "exhaustive byte->word map through the seam, generated malformed "
             "codes, and seeded histories of input-helper calls against a "
             "reference model while server replies arrive at scheduler-chosen "
             "times")
RULE = ("Enumerated part: all 256 byte values at odd and at even word "
        "positions through the os.urandom seam (exhaustive for that "
        "sub-check), lengths 0..8 through the full allocate path, and a list "
        "of malformed codes. Seeded part: one evaluation = one simulated "
        "execution in which client A allocates a code of tape-chosen length "
        "with tape-chosen random bytes while client B drives the input helper "
        "with a tape-generated history of calls (typed prefixes built from "
        "real and unreal word fragments, any order, repeated) under "
        "reconnects; every reply is checked against the documented reference "
        "model. This property is quantified over inputs/histories; the "
        "simulator contributes server timing and the randomness seam. "
        "Non-trivial: a completion set was non-empty or an out-of-order "
        "helper call was made. Distinct: event-log digests among non-trivial "
        "runs.")
RULE += (" Further cases: a third client's nameplate comes and goes during entry (completions compared with the server's latest list); the CLI's readline completer (real _rlcompleter.CodeInputter, harness acting as the user, blockingCallFromThread replaced by call-and-run-the-simulation-until-fired).")
RULE += (' Case reentrant: the second allocate/set/input call is made from inside the notification of the first one (delegate or Deferred API) and again afterwards.')
RULE += (' The readline case includes typos in the nameplate (malformed, later corrected).')
RULE += (' The history case also fetches completions from inside the when_wordlist_is_available() notification.')
LEVEL_TEXT = ("Exploration over generated inputs and call histories, with the "
              "byte->word map checked exhaustively (2x256 values). Oracles: "
              "code = server nameplate + '-' + exactly `length` words, one "
              "urandom(1) per word, word i a bijective function of (byte i, "
              "parity) with disjoint odd/even lists; malformed codes raise "
              "KeyFormatError before any `claim`; completions extend the "
              "typed text and end in a list word of the right parity; helper "
              "exceptions follow docs/api.rst; only one of allocate/set/input.")
LEVEL_NOTE = ("Uniformity/independence follow from the byte->word bijection "
              "plus one fresh urandom(1) per word; the distribution of "
              "os.urandom itself is trusted. Unicode-digit nameplates and "
              "codes without a dash are not judged (the statement names "
              "spaces and non-numeric nameplates only).")
ASSUMPTIONS = ["os.urandom is uniform (seam replaced by the simulator)"]
COMPONENTS = {"real": ["wormhole._rlcompleter.CodeInputter (readline case)", "PGPWordList", "Code/Input/Lister/Allocator/Nameplate "
                       "machines", "wormhole_mailbox_server"],
              "stub": ["Autobahn", "TCP/DNS", "SPAKE2 stand-in", "os.urandom "
                       "(scripted)"]}

_REF = {}


def reference_lists():
    """(odd_words[256], even_words[256]) obtained through the seam."""
    if not _REF:
        wl = PGPWordList()
        odd, even = [], []
        for v in range(256):
            RNG.script = [bytes([v]), bytes([v])]
            w0, w1 = wl.choose_words(2).split("-")
            odd.append(w0)
            even.append(w1)
        RNG.script = []
        _REF["odd"], _REF["even"] = odd, even
    return _REF["odd"], _REF["even"]


BAD_CODES = [" 4-purple-sausages", "4-purple-sausages ", "4 -purple-sausages",
             "4- purple-sausages", "4-purple sausages", "-purple-sausages",
             "four-purple-sausages", "4a-purple", "a4-purple", "purple-4",
             " ", "- -", "4.5-x-y", "+4-x-y", "0x4-x-y", "4\t-x"]


def sweep(tier):
    out = [{"case": "exhaustive_words"}]
    out += [{"case": "lengths", "length": n} for n in range(0, 9)]
    out += [{"case": "badcode", "code": c} for c in BAD_CODES]
    return out


def configs(tier):
    return [{"case": "history", "spake": "stub"},
            {"case": "history", "spake": "stub"},
            {"case": "readline", "spake": "stub"},
            {"case": "reentrant", "spake": "stub"}]


def V(key, clause, detail):
    return {"key": key, "clause": clause, "detail": detail}


class HelperHang(Exception):
    pass


def case_readline(seed, tape, opts):
    """The CLI's interactive entry: the real _rlcompleter.CodeInputter on the
    real input helper. The 'user' is the harness: between keystrokes the
    simulation runs; TAB calls _commit_and_build_completions(text), Return
    calls finish(text). blockingCallFromThread is replaced by 'call it, and
    if it returns a Deferred run the simulation until it fires'."""
    from wormhole._rlcompleter import CodeInputter
    from twisted.internet.defer import Deferred
    w = MailboxWorld(tape, dict(opts, spake="stub"))
    sim = w.sim
    viol = []

    def VV(key, clause, detail):
        if not viol:
            viol.append(V(key, clause, detail))
    a = w.add_client("A", api="deferred")
    b = w.add_client("B", api="deferred")
    a.script = [("allocate", 2)]
    sim.run(2000, until=lambda: a.has("code"), max_time=60)
    if not a.has("code"):
        raise HarnessError("readline case: no code allocated")
    np_a, words_a = a.code.split("-", 1)
    # other nameplates on the server: one that extends A's, one unrelated
    ext = np_a + tape.pick(("2", "0", "77"), "ext")
    for i, npx in enumerate((ext, "909")):
        c = w.add_client("X%d" % i, api="deferred")
        c.script = [("set_code", npx + "-x-y")]
    sim.run(400, max_time=10)
    h = b.w.input_code()
    ci = CodeInputter(h, sim.reactor)

    def poke():
        # calls made from outside a simulator step: flush what they wrote
        if sim.net.autoflush:
            sim.net.autoflush_all()

    def bcft(f, *args, **kw):
        r = f(*args, **kw)
        poke()
        if isinstance(r, Deferred):
            box = []
            r.addBoth(box.append)
            sim.run(3000, until=lambda: bool(box), max_time=60)
            if not box:
                raise HelperHang(getattr(f, "__name__", "helper call"))
            if isinstance(box[0], Failure):
                box[0].raiseException()
            return box[0]
        return r
    ci.bcft = bcft
    poke()
    # what the input helper itself accepted (the ground truth for "a nameplate
    # was entered"): set when choose_nameplate returns without raising
    claimed = [None]
    _real_choose = h.choose_nameplate

    def choose_nameplate(nameplate):
        r = _real_choose(nameplate)
        claimed[0] = nameplate
        return r
    h.choose_nameplate = choose_nameplate

    def refused(what, text, e):
        # 'cannot go back' is only legitimate once a nameplate was entered
        if isinstance(e, E.AlreadyInputNameplateError) and claimed[0] is None:
            VV("C19.readline_refused_without_commitment", "interactive entry "
               "is consistent: a nameplate that was rejected as malformed "
               "commits the user to nothing", "%s on %r raised %r although no "
               "nameplate has been accepted so far (session %r)" %
               (what, text, e, session))
    session = []
    text = ""
    done = False
    committed = None
    for step in range(3 + tape.choose(8, "nkeys")):
        sim.run(tape.choose(60, "think"), max_time=5)
        act = tape.pick(("tab", "tab", "take", "np", "np_ext", "np_other",
                         "hyphen", "frag", "words_a", "return", "np_bad"),
                        "act")
        if act == "np":
            text = np_a
        elif act == "np_bad":
            # a typo in the nameplate (corrected by a later "np" / "words_a")
            text = tape.pick(("1x", " " + np_a, np_a + "a", ""), "bad") + \
                ("-" + text.split("-", 1)[1] if "-" in text else "-")
        elif act == "np_ext":
            text = ext + ("-" + text.split("-", 1)[1] if "-" in text else "")
        elif act == "np_other":
            text = "909" + ("-" + text.split("-", 1)[1] if "-" in text else "")
        elif act == "hyphen":
            text += "-"
        elif act == "frag":
            text += tape.pick(("a", "st", "z", words_a[:2]), "frag")
        elif act == "words_a":
            text = (text.split("-", 1)[0] if text else np_a) + "-" + words_a
        if act in ("tab", "take"):
            try:
                m = ci._commit_and_build_completions(text)
            except (E.AlreadyInputNameplateError, E.KeyFormatError,
                    E.WormholeError) as e:
                session.append(("tab", text, type(e).__name__))
                refused("TAB", text, e)
                continue
            except HelperHang as e:
                VV("C19.readline_helper_hangs", "interactive entry: the "
                   "wordlist becomes available once the nameplate is claimed",
                   "TAB on %r: %s() never fired although the connection is "
                   "up (session %r)" % (text, e, session))
                break
            except Exception as e:
                VV("C19.readline_exception." + type(e).__name__, "interactive "
                   "entry follows docs/api.rst", "TAB on %r raised %r "
                   "(session %r)" % (text, e, session))
                break
            session.append(("tab", text, len(m)))
            if "-" in text and committed is None:
                committed = text.split("-", 1)[0]
            if "-" in text and claimed[0] != text.split("-", 1)[0]:
                VV("C19.readline_completions_without_claim", "word "
                   "completions are offered for the nameplate that was "
                   "entered", "TAB on %r returned completions although the "
                   "input helper holds nameplate %r (session %r)" %
                   (text, claimed[0], session))
            for c in m:
                if not c.startswith(text):
                    VV("C19.readline_completion_not_extension", "every "
                       "completion offered extends what was typed",
                       "typed %r, offered %r" % (text, c))
            if act == "take" and m:
                text = tape.pick(m, "takei")
        elif act == "return":
            try:
                ci.finish(text)
                session.append(("return", text, "ok"))
                done = True
            except (E.AlreadyInputNameplateError, E.KeyFormatError,
                    E.WormholeError) as e:
                session.append(("return", text, type(e).__name__))
                refused("Return", text, e)
                continue
            except Exception as e:
                VV("C19.readline_exception." + type(e).__name__, "interactive "
                   "entry follows docs/api.rst", "Return on %r raised %r "
                   "(session %r)" % (text, e, session))
            break
        else:
            session.append((act, text))
    if done and not viol:
        sim.run(2000, until=lambda: b.has("code"), max_time=60)
        if b.code != text:
            VV("C19.readline_code_differs", "choosing an offered completion / "
               "entering a code yields that code", "the user entered %r (and "
               "Return was accepted) but the wormhole's code is %r; session "
               "%r" % (text, b.code, session))
    for c in w.clients:
        c.do_close()
    sim.run(3000, until=lambda: all(c.is_closed for c in w.clients),
            max_time=120)
    w.finish()
    return ca.result(sim, w, viol[0] if viol else None,
                     any(x[0] == "tab" for x in session), seed,
                     extra_sample={"case": "readline", "code_A": a.code,
                                   "session": session[:12], "code_B": b.code})


def case_exhaustive(seed, tape, opts):
    wl = PGPWordList()
    viol = None
    triples = 0
    maps = ({}, {})
    for parity in (0, 1):
        for v in range(256):
            for other in (0, 255):
                RNG.script = [bytes([v]), bytes([other])] if parity == 0 else \
                    [bytes([other]), bytes([v])]
                RNG.log = []
                words = wl.choose_words(2).split("-")
                draws = [x for x in RNG.log if x[0] == 1]
                RNG.log = None
                if len(draws) != 2 and not viol:
                    viol = V("C19.urandom_per_word", "os.urandom(1) consumed "
                             "exactly once per word", "2 words, %d draws" %
                             len(draws))
                wv = words[parity]
                prev = maps[parity].setdefault(v, wv)
                triples += 1
                if prev != wv and not viol:
                    viol = V("C19.word_depends_on_other_byte", "word i is a "
                             "function of byte i and parity only",
                             "parity %d byte %d -> %r and %r" %
                             (parity, v, prev, wv))
    RNG.script = []
    for parity in (0, 1):
        if len(set(maps[parity].values())) != 256 and not viol:
            viol = V("C19.not_bijective", "256 byte values map onto 256 "
                     "distinct words per list (uniform bytes give uniform "
                     "words)", "parity %d: %d distinct words" %
                     (parity, len(set(maps[parity].values()))))
    if set(maps[0].values()) & set(maps[1].values()) and not viol:
        viol = V("C19.lists_overlap", "odd and even lists are disjoint", "")
    for parity in (0, 1):
        for wv in maps[parity].values():
            if (wv != wv.lower() or " " in wv or "-" in wv) and not viol:
                viol = V("C19.word_form", "words are lowercase, no spaces or "
                         "hyphens", repr(wv))
    return {"violation": viol, "nontrivial": True,
            "digest": "exhaustive-%d" % triples, "trace": None,
            "stats": {"steps": triples, "sim_s": 0.0,
                      "notes": {"probe.exhaustive_byte_values": 512}},
            "sample": {"case": "exhaustive_words", "triples": triples,
                       "example": [maps[0][0], maps[1][0], maps[0][255],
                                   maps[1][255]]}}


def run_one(seed, tape, opts):
    case = opts.get("case", "history")
    if case == "exhaustive_words":
        return case_exhaustive(seed, tape, opts)
    if case == "readline":
        return case_readline(seed, tape, opts)
    odd, even = reference_lists()
    w = MailboxWorld(tape, dict(opts, spake="stub"))
    sim = w.sim
    viol = []

    def VV(key, clause, detail):
        if not viol:
            viol.append(V(key, clause, detail))
    a = w.add_client("A", api="deferred")
    server_np = {}

    latest_list = {}

    def on_server_msg(c, msg):
        if msg.get("type") == "allocated":
            server_np[c.name] = msg["nameplate"]
        elif msg.get("type") == "nameplates":
            latest_list[c.name] = set(n["id"] for n in msg["nameplates"])
            sim.ev("list", c.name, len(latest_list[c.name]))
    w.on_server_msg = on_server_msg
    claims_seen = lambda c: [m for (_, side, m) in w.server.command_log  # noqa
                             if side == c.side and m["type"] == "claim"]
    if case == "badcode":
        code = opts["code"]
        try:
            a.w.set_code(code)
            VV("C19.badcode_accepted", "malformed codes (spaces, non-numeric "
               "nameplate) are rejected", "set_code(%r) did not raise" % code)
        except E.KeyFormatError:
            pass
        except Exception as e:
            VV("C19.badcode_wrong_exception", "malformed codes raise "
               "KeyFormatError", "set_code(%r) raised %r" % (code, e))
        sim.run(300, max_time=5)
        if claims_seen(a):
            VV("C19.badcode_sent", "rejected before anything is sent",
               "server saw a claim after set_code(%r)" % code)
        # the wormhole is still usable with a good code
        try:
            a.w.set_code("4-purple-sausages")
        except Exception as e:
            VV("C19.badcode_poisoned", "a rejected code does not count as the "
               "one allowed code call", "good set_code after bad raised %r" % e)
        sim.run(300, until=lambda: a.has("code"), max_time=5)
        a.do_close()
        sim.run(500, until=lambda: a.is_closed, max_time=60)
        w.finish()
        return ca.result(sim, w, viol[0] if viol else None, True, seed,
                         extra_sample={"case": case, "code": code})
    if case == "reentrant":
        # the application makes its second code call from INSIDE the
        # notification of the first one (delegate API: wormhole_got_code runs
        # synchronously inside set_code()), then again afterwards
        r_ = w.add_client("R", api=tape.pick(("delegate", "delegate",
                                              "deferred"), "apir"))
        first = tape.pick(("set", "set", "allocate", "input"), "first")
        nested = {"done": False, "log": []}

        def second_calls(where):
            for fn, args in ((r_.w.allocate_code, (2,)),
                             (r_.w.set_code, ("5-a-b",)),
                             (r_.w.input_code, ())):
                try:
                    fn(*args)
                    VV("C19.second_code_call", "only one of allocate/set/"
                       "input may ever be used", "%s() %s did not raise "
                       "(first call: %s)" % (fn.__name__, where, first))
                except E.OnlyOneCodeError:
                    pass
                except Exception as e:
                    VV("C19.second_code_call_exc", "a second code call raises "
                       "OnlyOneCodeError", "%s() %s raised %r (first call: "
                       "%s, api %s)" % (fn.__name__, where, e, first,
                                         r_.api))

        def on_app_event(c, kind, value):
            if c is r_ and kind == "code" and not nested["done"]:
                nested["done"] = True
                sim.note("probe.second_code_call_from_code_notification")
                second_calls("from inside the code notification")
        w.on_app_event = on_app_event
        try:
            if first == "set":
                r_.w.set_code("7-crossover-clockwork")
            elif first == "allocate":
                r_.w.allocate_code(2)
            else:
                h_ = r_.w.input_code()
                h_.choose_nameplate("7")
                h_.choose_words("crossover-clockwork")
        except Exception as e:
            VV("C19.first_code_call_raised", "the one allowed code call "
               "works", "%s raised %r (api %s)" % (first, e, r_.api))
        sim.run(600, until=lambda: r_.has("code"), max_time=20)
        second_calls("after the first call returned")
        sim.run(600, max_time=5)
        if not viol and not r_.has("code"):
            VV("C19.no_code", "the code call yields a code", "no code event "
               "after %s" % first)
        if not viol and not [m for (_, side, m) in w.server.command_log
                             if side == r_.side and m["type"] == "add" and
                             m.get("phase") == "pake"]:
            VV("C19.code_entry_stalled", "entering the code starts the key "
               "exchange", "no pake was sent after %s (api %s)" %
               (first, r_.api))
        r_.do_close()
        sim.run(800, until=lambda: r_.is_closed, max_time=60)
        w.finish()
        return ca.result(sim, w, viol[0] if viol else None, True, seed,
                         extra_sample={"case": case, "first": first,
                                       "api": r_.api})
    # allocation through the full path
    length = opts.get("length")
    if length is None:
        length = tape.choose(9, "length")
    rbytes = [tape.choose(256, "rb") for _ in range(length)]
    RNG.script = [bytes([v]) for v in rbytes]
    RNG.log = []
    a.script = [("allocate", length), ("allocate", 2), ("set_code", "9-x-y"),
                ("input",)]
    a.script = a.script[:1 + tape.choose(4, "nred")]
    b = None
    if case == "history":
        b = w.add_client("B", api=tape.pick(("deferred", "delegate"), "apib"))
        ca.pick_faults(tape, w, ("cut", "server_restart"), 2)
        if tape.choose(2, "third") == 0:
            # somebody else's nameplate comes and goes while B is typing: the
            # server's list shrinks between two refreshes
            c3 = w.add_client("C", api="deferred")
            c3.script = [("wait_steps", tape.choose(40, "c3w0")),
                         ("set_code", tape.pick(("10101", "120120", "909"),
                                                "c3np") + "-x-y"),
                         ("wait_steps", 5 + tape.choose(120, "c3w1")),
                         ("close",)]
    sim.run(2000, until=lambda: a.has("code") and w.scripts_done(),
            max_time=300) if b is None else None
    hist = []
    if b is not None:
        # B: input helper with a generated call history
        model = {"phase": "np", "np": None}
        frag = lambda: tape.pick(  # noqa
            ("", "a", "ab", "st", "z", "qq", tape.pick(odd, "fo")[:2],
             tape.pick(odd, "fo2"), tape.pick(even, "fe")[:3],
             tape.pick(even, "fe2"), "Ab", "-"), "frag")

        def gen_prefix():
            parts = []
            for _ in range(tape.choose(4, "nparts")):
                parts.append(tape.pick((tape.pick(odd, "po"),
                                        tape.pick(even, "pe"), "xx"), "pp"))
            parts.append(frag())
            return "-".join(parts)
        ops = [("input",)]
        for _ in range(2 + tape.choose(10, "nh")):
            k = tape.choose(10, "hk")
            if k == 9:
                # a UI with live completion: asks to be told when the
                # wordlist is there and fetches completions from inside that
                # notification
                ops.append(("h", "when_wordlist_is_available", gen_prefix()))
            elif k in (0, 7):
                ops.append(("h", "refresh_nameplates"))
            elif k in (1, 8):
                ops.append(("h", "get_nameplate_completions",
                            tape.pick(("", "1", "2", "9", "x", "12"), "npp")))
            elif k == 2:
                ops.append(("h", "choose_nameplate_of_A"))
            elif k == 3:
                ops.append(("h", "choose_nameplate",
                            tape.pick(("77", " 7", "x", ""), "badnp")))
            elif k in (4, 5):
                ops.append(("h", "get_word_completions", gen_prefix()))
            else:
                ops.append(("h", "choose_words_of_A"))
        ops.append(("h", "choose_nameplate_of_A"))
        ops.append(("h", "get_word_completions", gen_prefix()))
        ops.append(("h", "choose_words_of_A"))
        ops.append(("h", "choose_words", "late-words"))
        ops.append(("REDUNDANT",))
        state = {"i": 0}

        def do_hist_op():
            op = ops[state["i"]]
            state["i"] += 1
            sim.ev("hist", op[0], *[str(x) for x in op[1:]])
            if op[0] == "input":
                b.helper = b.w.input_code()
                return
            if op[0] == "REDUNDANT":
                for fn, args in ((b.w.allocate_code, (2,)),
                                 (b.w.set_code, ("5-a-b",)),
                                 (b.w.input_code, ())):
                    try:
                        fn(*args)
                        VV("C19.second_code_call", "only one of allocate/set/"
                           "input may ever be used", "%s did not raise" %
                           fn.__name__)
                    except E.OnlyOneCodeError:
                        pass
                    except Exception as e:
                        VV("C19.second_code_call_exc", "second code call "
                           "raises OnlyOneCodeError", repr(e))
                return
            h = b.helper
            name = op[1]
            arg = op[2] if len(op) > 2 else None
            if name == "when_wordlist_is_available":
                def from_notification(_, prefix=arg):
                    sim.note("probe.completions_from_wordlist_notification")
                    try:
                        got_c = h.get_word_completions(prefix)
                    except E.AlreadyChoseWordsError:
                        return
                    except Exception as e:
                        VV("C19.helper_unexpected_exception."
                           "get_word_completions", "input helper calls follow "
                           "docs/api.rst: once the wordlist is announced "
                           "completions can be had", "get_word_completions(%r)"
                           " from inside the when_wordlist_is_available() "
                           "notification raised %r" % (prefix, e))
                        return
                    for c_ in got_c:
                        if not c_.startswith(prefix):
                            VV("C19.word_completion_not_extension", "every "
                               "completion extends the prefix", "%r -> %r" %
                               (prefix, c_))
                try:
                    h.when_wordlist_is_available().addCallback(
                        from_notification)
                except Exception as e:
                    VV("C19.helper_unexpected_exception."
                       "when_wordlist_is_available", "input helper calls "
                       "follow docs/api.rst", repr(e))
                return
            if name.endswith("_of_A"):
                acode = a.code
                if name == "choose_nameplate_of_A":
                    name, arg = "choose_nameplate", acode.split("-")[0]
                else:
                    name, arg = "choose_words", acode.split("-", 1)[1]
            # reference model: expected exception
            expect = None
            ph = model["phase"]
            if name in ("refresh_nameplates", "get_nameplate_completions"):
                if ph != "np":
                    expect = E.AlreadyChoseNameplateError
            elif name == "choose_nameplate":
                import re
                if not re.search(r"^\d+$", arg):
                    expect = E.KeyFormatError
                elif ph != "np":
                    expect = E.AlreadyChoseNameplateError
            elif name == "get_word_completions":
                if ph == "np":
                    expect = E.MustChooseNameplateFirstError
                elif ph == "done":
                    expect = E.AlreadyChoseWordsError
            elif name == "choose_words":
                if ph == "np":
                    expect = E.MustChooseNameplateFirstError
                elif ph == "done":
                    expect = E.AlreadyChoseWordsError
            try:
                res = getattr(h, name)(*(() if arg is None else (arg,)))
                got = None
            except Exception as e:
                res, got = None, e
            hist.append((name, arg, type(got).__name__ if got else "ok"))
            if expect is None and got is not None:
                VV("C19.helper_unexpected_exception.%s" % name, "input helper "
                   "calls follow docs/api.rst", "%s(%r) in phase %s raised %r"
                   % (name, arg, ph, got))
                return
            if expect is not None and not isinstance(got, expect):
                VV("C19.helper_missing_exception.%s" % name, "input helper "
                   "calls raise the documented exception when called out of "
                   "order", "%s(%r) in phase %s: expected %s, got %r" %
                   (name, arg, ph, expect.__name__, got))
                return
            if expect is not None:
                sim.note("probe.helper_out_of_order_call")
                return
            if name == "choose_nameplate":
                model["phase"], model["np"] = "words", arg
            elif name == "choose_words":
                model["phase"] = "done"
                model["words"] = arg
            elif name == "get_nameplate_completions":
                if "B" in latest_list:
                    want_c = set(n + "-" for n in latest_list["B"]
                                 if n.startswith(arg))
                    if set(res) != want_c:
                        VV("C19.nameplate_completions_vs_server_list",
                           "nameplate completions are the nameplates of the "
                           "server's current list that extend what was typed "
                           "(choosing one yields a code a peer's "
                           "allocate_code could have produced)",
                           "prefix %r: offered %r, server's latest list %r" %
                           (arg, sorted(res), sorted(latest_list["B"])))
                    if len(latest_list["B"]) > 0:
                        sim.note("probe.completions_checked_against_list")
                for cpl in res:
                    if not cpl.startswith(arg) or not cpl.endswith("-") or \
                            not cpl[:-1].isdigit():
                        VV("C19.nameplate_completion_form", "every completion "
                           "offered extends what was typed",
                           "prefix %r -> %r" % (arg, cpl))
                if res:
                    sim.note("probe.nonempty_nameplate_completions")
            elif name == "get_word_completions":
                typed = arg.split("-")
                for cpl in res:
                    if not cpl.startswith(arg):
                        VV("C19.word_completion_not_extension", "every "
                           "completion offered extends what was typed",
                           "prefix %r -> %r" % (arg, cpl))
                        break
                    words = cpl.rstrip("-").split("-") if cpl.endswith("-") \
                        else cpl.split("-")
                    if words[:len(typed) - 1] != typed[:-1]:
                        VV("C19.word_completion_rewrites", "completion keeps "
                           "the complete words already typed",
                           "prefix %r -> %r" % (arg, cpl))
                        break
                    i = len(typed) - 1
                    ref = odd if i % 2 == 0 else even
                    if words[i] not in ref:
                        VV("C19.word_completion_wrong_list", "choosing any "
                           "offered completion yields a code allocate_code "
                           "could have produced (word %d from the %s list)" %
                           (i, "odd" if i % 2 == 0 else "even"),
                           "prefix %r -> %r" % (arg, cpl))
                        break
                # completeness: every list word with that prefix is offered
                i = len(typed) - 1
                ref = odd if i % 2 == 0 else even
                want = set(x for x in ref if x.startswith(typed[-1]))
                if b.helper._input._wordlist is not None and not viol:
                    gotw = set((c.rstrip("-").split("-")[i]) for c in res)
                    if gotw != want:
                        VV("C19.word_completion_incomplete", "completions are "
                           "exactly the list words extending the typed text",
                           "prefix %r: missing %r extra %r" %
                           (arg, sorted(want - gotw)[:3],
                            sorted(gotw - want)[:3]))
                if res:
                    sim.note("probe.nonempty_word_completions")

        def extra():
            if state["i"] < len(ops) and not viol:
                op = ops[state["i"]]
                if (op[0] == "h" and op[1].endswith("_of_A") or
                        op[0] == "REDUNDANT") and a.code is None:
                    return []
                return [("B:hist", do_hist_op)]
            return []
        w.extra_app_events = extra
        sim.run(4000, until=lambda: bool(viol) or (
            state["i"] >= len(ops) and a.has("code") and b.has("code")),
            max_time=300)
        w.heal()
        sim.run(3000, until=lambda: bool(viol) or (
            state["i"] >= len(ops) and a.has("code") and b.has("code")),
            max_time=600)
        if not viol and state["i"] >= len(ops):
            want = "%s-%s" % (model["np"], model.get("words"))
            if b.code != want:
                VV("C19.input_code_result", "nameplate + '-' + chosen words is "
                   "the resulting code", "chosen %r, get_code %r" %
                   (want, b.code))
    draws = [x for x in (RNG.log or []) if x[0] == 1]
    RNG.log = None
    RNG.script = []
    code = a.code
    if not viol:
        if code is None:
            VV("C19.no_code", "allocate_code yields a code", "no code event")
        else:
            np = server_np.get("A")
            exp_words = [(odd if i % 2 == 0 else even)[v]
                         for i, v in enumerate(rbytes)]
            exp = "%s-%s" % (np, "-".join(exp_words))
            if code != exp:
                VV("C19.code_form", "an allocated code is the server's "
                   "nameplate followed by exactly the requested number of "
                   "words, word i chosen by random byte i",
                   "length %d bytes %r: got %r expected %r" %
                   (length, rbytes, code, exp))
            if len(draws) != length:
                VV("C19.urandom_per_word", "os.urandom(1) consumed exactly "
                   "once per word", "length %d, %d draws" % (length,
                                                             len(draws)))
            for lab, en in [(x[0], x[1]) for x in a.expected_errors]:
                if en != "OnlyOneCodeError":
                    VV("C19.second_code_call_exc", "second code call raises "
                       "OnlyOneCodeError", "%s raised %s" % (lab, en))
            if a.api_errors:
                VV("C19.api_error", "no unexpected exception", repr(
                    a.api_errors))
    for c in w.clients:
        c.do_close()
    sim.run(2000, until=lambda: all(c.is_closed for c in w.clients),
            max_time=120)
    w.finish()
    nontrivial = bool(sim.notes.get("probe.nonempty_word_completions") or
                      sim.notes.get("probe.helper_out_of_order_call") or
                      case != "history")
    return ca.result(sim, w, viol[0] if viol else None, nontrivial, seed,
                     extra_sample={"case": case, "length": length,
                                   "bytes": rbytes, "code": code,
                                   "history": hist[:12]})


if __name__ == "__main__":
    import sys
    sys.exit(runner.main(sys.modules[__name__]))
