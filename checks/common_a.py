"""Workload generation shared by the world-A checks."""
from worlds.mailbox import MailboxWorld

CODE_MODES = ("alloc_set", "set_set", "alloc_input", "set_input")

PAYLOADS = (b"", b"x", b"\x00\xff\x80binary\n", b"same", b"same")


def gen_payload(tape, idx, who, big_ok=True):
    k = tape.choose(8, "payload")
    if k < len(PAYLOADS):
        return PAYLOADS[k]
    if k == 5 and big_ok:
        return tape.blob(20000, idx)
    return ("%s-%d-" % (who, idx)).encode() + tape.blob(tape.choose(40, "plen"), idx)


def fixed_code(tape):
    words = ("alpha", "beta", "gamma", "Zulu", "ünï", "x")
    return "%d-%s-%s" % (1 + tape.choose(99, "np"), tape.pick(words, "w1"),
                         tape.pick(words, "w2"))


def code_ops(tape, mode, first, other_name):
    """Ops that make one client learn the shared code. `first` is the side that
    originates it."""
    if mode == "alloc_set":
        return [("allocate", 1 + tape.choose(3, "len"))] if first else \
            [("set_code_from", other_name)]
    if mode == "alloc_input":
        if first:
            return [("allocate", 1 + tape.choose(3, "len"))]
        ops = [("input",)]
        if tape.choose(2, "refresh"):
            ops.append(("refresh_nameplates",))
        ops += [("choose_nameplate_from", other_name),
                ("choose_words_from", other_name)]
        return ops
    raise ValueError(mode)


def interleave(tape, fixed, movable):
    """Insert `movable` ops (kept in order) at tape-chosen positions among the
    `fixed` ops (kept in order)."""
    out = list(fixed)
    pos = 0
    for op in movable:
        pos = pos + tape.choose(len(out) - pos + 1, "ipos")
        out.insert(pos, op)
        pos += 1
    return out


def build_pair(tape, opts, max_msgs=6, apis=("deferred", "delegate")):
    """Two clients that share a code, each with a script of sends."""
    w = MailboxWorld(tape, opts)
    mode = tape.pick(("alloc_set", "set_set", "alloc_input"), "codemode")
    api_a = tape.pick(apis, "api_a")
    api_b = tape.pick(apis, "api_b")
    a = w.add_client("A", api=api_a, versions={"v": "A"})
    b = w.add_client("B", api=api_b, versions={"v": "B"})
    if mode == "set_set":
        code = fixed_code(tape)
        ca, cb = [("set_code", code)], [("set_code", code)]
    else:
        ca = code_ops(tape, mode, True, "B")
        cb = code_ops(tape, mode, False, "A")
    na = tape.choose(max_msgs + 1, "na")
    nb = tape.choose(max_msgs + 1, "nb")
    sa = [("send", gen_payload(tape, i, "A")) for i in range(na)]
    sb = [("send", gen_payload(tape, i, "B")) for i in range(nb)]
    a.script = interleave(tape, ca, sa)
    b.script = interleave(tape, cb, sb)
    w.mode = mode
    return w, a, b
