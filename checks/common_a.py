"""Workload generation shared by the world-A checks."""
from worlds.mailbox import MailboxWorld

CODE_MODES = ("alloc_set", "set_set", "alloc_input", "set_input")

PAYLOADS = (b"", b"x", b"\x00\xff\x80binary\n", b"same", b"same")


def gen_payload(tape, idx, who, big_ok=True):
    k = tape.choose(8, "payload")
    if k < len(PAYLOADS):
        return PAYLOADS[k]
    if k == 5 and big_ok:
        return tape.blob(20000, idx)
    return ("%s-%d-" % (who, idx)).encode() + tape.blob(tape.choose(40, "plen"), idx)


def fixed_code(tape):
    words = ("alpha", "beta", "gamma", "Zulu", "ünï", "x")
    return "%d-%s-%s" % (1 + tape.choose(99, "np"), tape.pick(words, "w1"),
                         tape.pick(words, "w2"))


def code_ops(tape, mode, first, other_name):
    """Ops that make one client learn the shared code. `first` is the side that
    originates it."""
    if mode == "alloc_set":
        return [("allocate", 1 + tape.choose(3, "len"))] if first else \
            [("set_code_from", other_name)]
    if mode == "alloc_input":
        if first:
            return [("allocate", 1 + tape.choose(3, "len"))]
        ops = [("input",)]
        if tape.choose(2, "refresh"):
            ops.append(("refresh_nameplates",))
        ops += [("choose_nameplate_from", other_name),
                ("choose_words_from", other_name)]
        return ops
    raise ValueError(mode)


def interleave(tape, fixed, movable):
    """Insert `movable` ops (kept in order) at tape-chosen positions among the
    `fixed` ops (kept in order)."""
    out = list(fixed)
    pos = 0
    for op in movable:
        pos = pos + tape.choose(len(out) - pos + 1, "ipos")
        out.insert(pos, op)
        pos += 1
    return out


def build_pair(tape, opts, max_msgs=6, apis=("deferred", "delegate"),
               lazy_ok=False):
    """Two clients that share a code, each with a script of sends."""
    if opts.get("_tier") == "thorough":
        max_msgs = max(max_msgs, 12)
    w = MailboxWorld(tape, opts)
    mode = tape.pick(("alloc_set", "set_set", "alloc_input"), "codemode")
    api_a = tape.pick(apis, "api_a")
    api_b = tape.pick(apis, "api_b")
    if opts.get("slow_reader"):
        api_a = "deferred"
    lazy_a = (lazy_ok and api_a == "deferred" and tape.choose(4, "lazy") == 3) \
        or bool(opts.get("slow_reader"))
    dil = bool(opts.get("dilate"))
    a = w.add_client("A", api=api_a, versions={"v": "A"},
                     lazy_messages=lazy_a, **({"dilation": True} if dil
                                              else {}))
    b = w.add_client("B", api=api_b, versions={"v": "B"},
                     **({"dilation": True} if dil else {}))
    if mode == "set_set":
        code = fixed_code(tape)
        ca, cb = [("set_code", code)], [("set_code", code)]
    else:
        ca = code_ops(tape, mode, True, "B")
        cb = code_ops(tape, mode, False, "A")
    na = tape.choose(max_msgs + 1, "na")
    nb = tape.choose(max_msgs + 1, "nb")
    if opts.get("min_msgs"):
        # long conversations: phase numbers with several digits
        na, nb = max(na, opts["min_msgs"]), max(nb, opts["min_msgs"])
    sa = [("send", gen_payload(tape, i, "A")) for i in range(na)]
    sb = [("send", gen_payload(tape, i, "B")) for i in range(nb)]
    if dil:
        # both sides also dilate: the numbered dilate-N control messages share
        # the mailbox with the numbered application phases
        w.sim.no_advance_while_connecting = True
        sa = interleave(tape, sa, [("dilate", {"no_listen":
                                               tape.choose(3, "dnl") == 0})])
        sb = interleave(tape, sb, [("dilate", {"no_listen":
                                               tape.choose(3, "dnl") == 0})])
    a.script = interleave(tape, ca, sa)
    b.script = interleave(tape, cb, sb)
    if opts.get("slow_reader"):
        # A starts reading late: until then nothing asks for the messages
        # that keep arriving (they wait in the library)
        def start_reading(c):
            if c.lazy_messages:
                c.lazy_messages = False
                w.sim.note("probe.slow_reader_starts_reading")
                c._next_message()
        w.extra_ops = dict(w.extra_ops or {}, start_reading=start_reading)
        a.script += [("wait_event_or_steps", "verifier", 400),
                     ("wait_steps", 40 + tape.choose(260, "slow_reader")),
                     ("start_reading",)]
    w.mode = mode
    return w, a, b


CONN_FAULTS = ("cut", "half_open", "server_restart", "refuse", "hang",
               "stall", "ws_close")
MSG_FAULTS = ("mbox_dup", "mbox_reorder", "mbox_replay_stored")


def short_op(op):
    return [o if not isinstance(o, bytes) else "<%d bytes>" % len(o)
            for o in op]


def pick_faults(tape, w, kinds, max_budget=6):
    if w.opts.get("_tier") == "thorough":
        max_budget = max_budget * 2 + 2
    w.fault_kinds = tuple(k for k in kinds if tape.choose(4, "fk") != 0)
    w.fault_budget = tape.choose(max_budget + 1, "fbudget")


def result(sim, w, violation, nontrivial, seed, extra_sample=None,
           extra_stats=None):
    sample = {"seed": seed, "mode": getattr(w, "mode", None),
              "clients": [[c.name, c.api] for c in w.clients],
              "scripts": {c.name: [short_op(o) for o in c.script]
                          for c in w.clients},
              "faults": [list(f) for f in w.faults_fired[:12]],
              "closed": {c.name: repr(c.closed_results) for c in w.clients}}
    if extra_sample:
        sample.update(extra_sample)
    stats = {"steps": sim.steps, "sim_s": sim.now() - 1000.0,
             "notes": sim.notes}
    if extra_stats:
        stats["extra"] = extra_stats
    return {"violation": violation, "nontrivial": bool(nontrivial),
            "digest": sim.hexdigest(), "trace": sim.trace, "stats": stats,
            "sample": sample}


def reconnect_count(w):
    return max(0, sum(1 for l in w.sim.net.links if l.mode == "message") -
               len(w.clients))


class EventOrderOracle:
    """C18 / C09 'once each, causal order' over Client.events."""
    ONCE = ("code", "key", "verifier", "versions")

    def __init__(self, clients, versions_first=True):
        self.clients = clients
        self.pos = {c.name: 0 for c in clients}
        self.seen = {c.name: {} for c in clients}
        self.versions_first = versions_first
        self.violation = None

    def _v(self, key, clause, detail):
        if self.violation is None:
            self.violation = {"key": key, "clause": clause, "detail": detail}

    def step(self):
        if self.violation:
            return
        for c in self.clients:
            evs = c.events
            i = self.pos[c.name]
            seen = self.seen[c.name]
            while i < len(evs):
                kind, val = evs[i]
                i += 1
                if kind.endswith("_err") or kind == "welcome":
                    continue
                if "closed" in seen:
                    self._v("C18.after_closed", "nothing is delivered after "
                            "closed", "%s got %s after closed" % (c.name, kind))
                    return
                if kind in self.ONCE:
                    if kind in seen:
                        self._v("C18.once." + kind, "each of code/key/verifier"
                                "/versions occurs at most once",
                                "%s got %s twice" % (c.name, kind))
                        return
                if kind == "closed" and "closed" in seen:
                    self._v("C18.once.closed", "exactly one closed "
                            "notification", "%s closed twice" % c.name)
                    return
                need = {"key": ("code",), "verifier": ("code", "key"),
                        "versions": ("code", "key", "verifier"),
                        "message": ("code", "key", "verifier")}.get(kind, ())
                for n in need:
                    if n not in seen:
                        self._v("C18.order.%s_before_%s" % (kind, n),
                                "events occur in the order code, key, verifier,"
                                " then versions/messages",
                                "%s got %s before %s" % (c.name, kind, n))
                        return
                if kind == "message" and self.versions_first and \
                        "versions" not in seen:
                    self._v("C18.order.message_before_versions",
                            "with an order-preserving server the peer's "
                            "versions precede every application message",
                            "%s got a message before versions" % c.name)
                    return
                seen[kind] = seen.get(kind, 0) + 1
            self.pos[c.name] = i


class PrefixOracle:
    """C03: received(X) is a prefix of sent(peer)."""

    def __init__(self, a, b):
        self.pairs = ((a, b), (b, a))
        self.checked = {a.name: 0, b.name: 0}
        self.violation = None

    def step(self):
        if self.violation:
            return
        for x, y in self.pairs:
            n = len(x.received)
            k = self.checked[x.name]
            if n > k:
                for i in range(k, n):
                    if i >= len(y.sent) or x.received[i] != y.sent[i]:
                        self.violation = {
                            "key": "C03.prefix",
                            "clause": "received sequence is a prefix of the "
                                      "peer's sent sequence",
                            "detail": "%s received[%d]=%r but %s sent=%r" % (
                                x.name, i, x.received[i][:40], y.name,
                                [m[:20] for m in y.sent])}
                        return
                self.checked[x.name] = n
