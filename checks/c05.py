"""C05 - `wormhole receive` writes only where it said it would, and never
clobbers."""
import io
import os
import stat
import zipfile

from simlib import boot  # noqa: F401
from simlib import runner
from worlds.cli import CliWorld, snapshot

from twisted.internet.defer import inlineCallbacks
import wormhole
from wormhole import transit
from wormhole.util import bytes_to_dict, dict_to_bytes

PROP = "C05"
LEVEL = "exploration"
QUICK_S = 45
THOROUGH_S = 900
TECHNIQUE = ("deterministic simulation with a Byzantine sender node (real "
             "wormhole + transit library, hostile offers and zip archives) "
             "against the real cmd_receive.Receiver on a real scratch "
             "filesystem; before/after snapshot oracle over the whole sandbox")
RULE = ("One evaluation = one simulated transfer in which the sender's offer "
        "(file or directory; names with separators, '..', absolute paths, "
        "empty / dot names, trailing separators, unicode, very long) and, for "
        "directories, the zip archive (member names absolute, with '..', "
        "'a/../b', empty, '.', duplicates, directory entries, symlink "
        "entries, mode bits incl. 0) are generated from the tape, crossed "
        "with the receiver configuration: --output-file unset / new / "
        "existing file / existing directory, --accept-file on/off (scripted "
        "answers), destination pre-existing as file / directory / absent, "
        "and a sentinel tree in and around the working directory. This "
        "property is quantified over inputs and configurations; the "
        "simulator supplies the end-to-end path (offer and archive really "
        "travel through wormhole and transit into Receiver). Non-trivial: "
        "the name or a zip member was hostile, or something pre-existed at "
        "the destination. Distinct: event-log digests + generated inputs "
        "among non-trivial runs.")
RULE += (' Names include non-NFC forms and compatibility look-alikes of existing files; in 2/5 of file runs somebody else creates the announced destination (directory or file) while the transfer is under way.')
RULE += (' A quarter of the archives begin with ordered chains of symbolic-link members (depth 1..3) and a file named through them; any member may be a link.')
RULE += (' A sixth of the file offers carry a second (directory) entry with another name and a valid archive as payload.')
RULE += (" The destination may pre-exist as a symbolic link to a file kept elsewhere in the receiver's tree.")
RULE += (" The unrelated pre-existing '<destination>.tmp' is a directory with the user's files in it in a third of the cases.")
LEVEL_TEXT = ("Seeded exploration over generated inputs/configurations. "
              "allowed := the announced destination (cwd/basename, the "
              "--output-file target, or target-dir/basename) and, for "
              "directories, its descendants, plus a transient <dest>.tmp that "
              "did not pre-exist. Everything else in the sandbox (paths, "
              "types, contents, modes) is unchanged; without --output-file a "
              "pre-existing destination makes the transfer fail and stay "
              "unchanged; an existing file is replaced only in the two "
              "sanctioned cases; no pre-existing directory disappears.")
LEVEL_NOTE = ("The announced destination is computed by the harness from the "
              "documented rule, not from Receiver's own variables.")
ASSUMPTIONS = ["POSIX path semantics; real files in a per-run mkdtemp()"]
COMPONENTS = {"real": ["wormhole.cli.cmd_receive.Receiver", "zipfile",
                       "wormhole client + transit (both sides)",
                       "wormhole_mailbox_server"],
              "stub": ["Autobahn", "kernel TCP", "SPAKE2 stand-in",
                       "sender = scripted Byzantine node on the real library"]}

APPID = "lothar.com/wormhole/text-or-file-xfer"
BAD_NAMES = ("../evil", "../../evil", "/abs/evil", "sub/evil", "sub/../evil",
             "..", ".", "", "evil/", "evil/.", "./evil", "a/b/c/evil",
             "~/evil", "existing.txt", "existingdir", "existingdir/inner.txt",
             "existingdir/", "new.bin", "ünï.bin", "x" * 200, "evil.tmp",
             "out.bin", ".hidden", "-dash", "sp ace",
             # names that are not in Unicode NFC form / compatibility
             # look-alikes of files that exist in the working directory
             "u\u0308ni\u0308.bin", "\u212aconfig", "re\u0301sume\u0301.txt",
             "\uff2bconfig", "dir\\evil", "..\\evil", "existingdir\\inner.txt")
MEMBERS = ("ok.txt", "sub/ok2.txt", "../escape.txt", "../../escape2.txt",
           "/abs/escape3.txt", "sub/../../escape4.txt", "a/../b.txt", ".",
           "", "./", "..", "dir/", "sub/", "ok.txt", "ünï.txt",
           "../recv/existing.txt", "../outside_sentinel.txt", "x/" * 30 + "deep",
           "link", "../existing.txt", "../existingdir/inner.txt",
           "../../outside_sentinel.txt", "../existingdir/", "existing.txt",
           "inner.txt", "keep.txt", "existingdir/inner.txt",
           "recv/existing.txt")


def configs(tier):
    # the second configuration biases towards unpacking a directory offer
    # where something already exists (existing --output-file directory, names
    # resolving to existing directories, colliding zip members)
    # the third: an unrelated '<destination>.tmp' exists and the transit
    # connection dies mid-transfer
    return [{}, {"bias": "over_existing"}, {"bias": "tmp_cut"}]


def build_zip(tape):
    buf = io.BytesIO()
    members = []
    with zipfile.ZipFile(buf, "w", zipfile.ZIP_DEFLATED) as zf:
        plan = []
        if tape.choose(4, "chain") == 0:
            # members that only make sense in order: symbolic-link members
            # whose targets stay inside the destination when read as text, and
            # later members named through them
            depth = 1 + tape.choose(3, "chain_d")
            plan = [("a", "."), ("c", "a/.."), ("d", "c/..")][:depth]
            via = plan[-1][0]
            plan.append((via + "/" + tape.pick(
                ("escape5.txt", "existing.txt", "outside_sentinel.txt",
                 "existingdir/inner.txt", "recv/existing.txt"), "chain_f"),
                None))
        for i in range(len(plan) + tape.choose(6, "nmem")):
            link_to = None
            if i < len(plan):
                name, link_to = plan[i]
            else:
                name = tape.pick(MEMBERS, "mname")
                if tape.choose(8, "aslink") == 0 and not name.endswith("/"):
                    link_to = tape.pick(("..", ".", "../..", "/", "sub/..",
                                         "../existingdir", "existing.txt",
                                         "../existing.txt"), "lto")
            zi = zipfile.ZipInfo(name)
            mode = tape.pick((0o644, 0o755, 0o600, 0, 0o777, 0o4755), "mmode")
            data = tape.blob(tape.choose(50, "mlen"), i)
            if link_to is not None:
                zi.external_attr = (stat.S_IFLNK | 0o777) << 16
                data = link_to.encode()
            elif name == "link":
                zi.external_attr = (stat.S_IFLNK | 0o777) << 16
                data = b"../outside_sentinel.txt"
            elif name.endswith("/"):
                zi.external_attr = ((stat.S_IFDIR | (mode or 0o755)) << 16) | 0x10
                data = b""
            else:
                zi.external_attr = (stat.S_IFREG | mode) << 16
            try:
                import warnings
                with warnings.catch_warnings():
                    warnings.simplefilter("ignore")
                    zf.writestr(zi, data)
                members.append((name, mode))
            except Exception:
                pass
    return buf.getvalue(), members


def byz_sender(w, code, offer, payload, result):
    sim = w.sim

    @inlineCallbacks
    def go():
        wh = wormhole.create(APPID, w.server.url, sim.reactor)
        wh.set_code(code)
        yield wh.get_verifier()
        ts = transit.TransitSender("", reactor=sim.reactor)
        hints = yield ts.get_connection_hints()
        wh.send_message(dict_to_bytes({"transit": {
            "abilities-v1": ts.get_connection_abilities(),
            "hints-v1": hints}}))
        ts.set_transit_key(wh.derive_key(APPID + "/transit-key",
                                         ts.TRANSIT_KEY_LENGTH))
        wh.send_message(dict_to_bytes({"offer": offer}))
        answered = False
        while not answered:
            m = bytes_to_dict((yield wh.get_message()))
            if "error" in m:
                result["sender"] = "rejected:" + str(m["error"])[:60]
                yield wh.close()
                return
            if "transit" in m:
                ts.add_connection_hints(m["transit"].get("hints-v1", []))
            if "answer" in m:
                answered = True
        rp = yield ts.connect()
        for i in range(0, len(payload), 16384):
            rp.send_record(payload[i:i + 16384])
        try:
            ack = yield rp.receive_record()
            result["sender"] = "ack:" + ack.decode("utf-8", "replace")[:40]
        except Exception as e:
            result["sender"] = "noack:" + type(e).__name__
        rp.close()
        yield wh.close()
    d = go()
    d.addErrback(lambda f: result.setdefault("sender", "failed:" +
                                             f.type.__name__))


def run_one(seed, tape, opts):
    w = CliWorld(tape, opts)
    try:
        return _run(seed, tape, opts, w)
    finally:
        w.cleanup()


def _run(seed, tape, opts, w):
    import sys
    sys.stderr = io.StringIO()      # cmd_receive prints rejections there
    try:
        return _run2(seed, tape, opts, w)
    finally:
        sys.stderr = sys.__stderr__


def _run2(seed, tape, opts, w):
    sim = w.sim
    sim.allow_advance = False
    base, cwd = w.base, w.recv_dir
    # sentinel tree in and around the working directory
    def put(rel, data, mode=0o644):
        p = os.path.join(base, rel)
        os.makedirs(os.path.dirname(p), exist_ok=True)
        with open(p, "wb") as f:
            f.write(data)
        os.chmod(p, mode)
    put("outside_sentinel.txt", b"outside")
    put("recv/existing.txt", b"existing file")
    put("recv/existingdir/inner.txt", b"inner")
    put("recv/Kconfig", b"the user's own Kconfig")
    put("recv/\u00fcn\u00ef.bin", b"NFC-named file")
    put("recv/r\u00e9sum\u00e9.txt", b"NFC-named resume")
    put("recv/evil.tmp", b"unrelated tmp") if tape.choose(3, "tmp0") == 0 \
        else None
    put("send/secret.txt", b"sender side")
    os.makedirs(os.path.join(base, "abs"), exist_ok=True)
    if opts.get("bias") == "over_existing":
        kind = tape.pick(("directory", "directory", "file"), "kind")
        name = tape.pick(("..", ".", "x/..", "existingdir", "existingdir/",
                          "inner.txt", "existing.txt", "evil/", "sub/.",
                          "") + BAD_NAMES[:8] + BAD_NAMES[-4:], "name")
        out_mode = tape.pick(("existing_dir", "existing_dir", "unset",
                              "existing_file", "nested_new"), "outmode")
    else:
        kind = tape.pick(("file", "file", "directory"), "kind")
        name = tape.pick(BAD_NAMES, "name")
        out_mode = tape.pick(("unset", "unset", "new", "existing_file",
                              "existing_dir", "nested_new"), "outmode")
    accept = tape.choose(2, "accept") == 0
    answer = tape.pick(("y", "", "Y", "n", "yes", "no"), "answer")
    pre = tape.pick(("absent", "absent", "file", "dir", "link"), "pre")
    output_file = {"unset": None, "new": "out.bin",
                   "existing_file": "existing.txt",
                   "existing_dir": "existingdir",
                   "nested_new": "existingdir/newname"}[out_mode]
    # harness-side computation of the announced destination
    bn = os.path.basename(name)
    if output_file is None:
        dest = os.path.abspath(os.path.join(cwd, bn))
    else:
        o = os.path.abspath(os.path.join(cwd, output_file))
        if os.path.isdir(o):
            dest = os.path.abspath(os.path.join(o, bn))
        else:
            dest = o
    # optionally make something pre-exist exactly at the destination
    under_cwd = dest.startswith(cwd + os.sep)
    if pre != "absent" and under_cwd and not os.path.lexists(dest):
        if pre == "file":
            put(os.path.relpath(dest, base), b"pre-existing at dest")
        elif pre == "link":
            # the destination is a symbolic link to a file kept elsewhere
            put("recv/archive/kept.txt", b"the link's target")
            os.makedirs(os.path.dirname(dest), exist_ok=True)
            os.symlink(os.path.join(cwd, "archive", "kept.txt"), dest)
        else:
            os.makedirs(dest)
            put(os.path.relpath(os.path.join(dest, "keep.txt"), base), b"keep")
        # the documented rule is evaluated against the disk as it is now
        if output_file is not None:
            o = os.path.abspath(os.path.join(cwd, output_file))
            dest = os.path.abspath(os.path.join(o, bn)) if os.path.isdir(o) \
                else o
    dest_tmp = dest + ".tmp"
    if under_cwd and not os.path.lexists(dest_tmp) and \
            os.path.isdir(os.path.dirname(dest_tmp)) and \
            (tape.choose(5, "tmp1") == 0 or
             opts.get("bias") == "tmp_cut"):
        # an unrelated file -- or directory with files of the user's in it --
        # that happens to be called <destination>.tmp
        if tape.choose(3, "tmp_is_dir") == 0:
            for leaf in ("keep.txt", "a.txt", "sub/deep.txt"):
                put(os.path.relpath(os.path.join(dest_tmp, leaf), base),
                    b"the user's own " + leaf.encode())
            sim.note("probe.preexisting_tmp_directory")
        else:
            put(os.path.relpath(dest_tmp, base), b"unrelated tmp")
    tmp_preexisted = os.path.lexists(dest_tmp)
    dest_preexisted = os.path.lexists(dest)
    dest_was_dir = os.path.isdir(dest)
    before = snapshot(base)
    before_dirs = [k for k, v in before.items() if v[0] == "dir"]
    # payload
    members = []
    if kind == "file":
        payload = tape.blob(tape.pick((0, 10, 20000), "fsz"), 3)
        offer = {"file": {"filename": name, "filesize": len(payload)}}
        if tape.choose(6, "both") == 0:
            # one offer message with two entries: it is a file offer (the
            # receiver announces the file's destination); the directory entry
            # must not become a second destination. The payload is a valid
            # archive so that a second handler would have something to unpack
            payload, members = build_zip(tape)
            offer["file"]["filesize"] = len(payload)
            offer["directory"] = {"mode": "zipfile/deflated",
                                  "dirname": tape.pick(BAD_NAMES, "name2"),
                                  "zipsize": len(payload), "numbytes": 100,
                                  "numfiles": len(members)}
            sim.note("probe.offer_with_two_entries")
    else:
        payload, members = build_zip(tape)
        offer = {"directory": {"mode": "zipfile/deflated", "dirname": name,
                               "zipsize": len(payload), "numbytes": 100,
                               "numfiles": len(members)}}
    code = "%d-byz-code" % (1 + tape.choose(90, "np"))
    result = {}
    byz_sender(w, code, offer, payload, result)
    rargs = []
    if accept:
        rargs.append("--accept-file")
    else:
        w.inputs = [answer] * 3
    if output_file is not None:
        rargs += ["--output-file", output_file]
    # environment: while the transfer is under way somebody else (another
    # `wormhole receive` in the same directory, say) creates the announced
    # destination as a directory / a file
    env = tape.pick(("none", "none", "none", "mkdir", "file", "cut", "cut"),
                    "env") if not dest_preexisted else \
        tape.pick(("none", "cut"), "env2")
    if opts.get("bias") == "tmp_cut" and tape.choose(4, "env_f"):
        env = "cut"
    env_paths = set()
    env_state = {"left": None}

    def env_tick():
        if env == "none" or env_state["left"] == -1:
            return
        if env_state["left"] is None:
            started = (os.path.exists(dest_tmp) and not tmp_preexisted) \
                if kind == "file" else any(
                    l.ends[0].rx_count + l.ends[1].rx_count > 200
                    for l in getattr(w, "transit_links", []))
            if started:
                env_state["left"] = tape.choose(40, "env_after")
            return
        if env_state["left"] > 0:
            env_state["left"] -= 1
            return
        env_state["left"] = -1
        if env == "cut":
            # the transit connection dies mid-transfer
            for l in getattr(w, "transit_links", []):
                if l.up:
                    sim.ev("env", "cut_transit")
                    sim.note("fault.cut")
                    sim.net.cut(l)
            return
        if os.path.lexists(dest):
            return
        sim.ev("env", env)
        sim.note("fault.destination_created_by_someone_else_mid_transfer")
        if env == "mkdir":
            os.makedirs(dest)
            with open(os.path.join(dest, "theirs.txt"), "wb") as f:
                f.write(b"belongs to the other session")
            env_paths.update((os.path.relpath(dest, base),
                              os.path.relpath(os.path.join(dest, "theirs.txt"),
                                              base)))
        else:
            with open(dest, "wb") as f:
                f.write(b"written by someone else")
            env_paths.add(os.path.relpath(dest, base))
    sim.after_step = env_tick
    w.receive(*(rargs + [code]))
    sim.run(40000, until=lambda: "receive" in w.results and "sender" in result,
            max_time=300)
    sim.run(2000, max_time=20)
    after = snapshot(base)
    rres = w.results.get("receive")
    r_ok = rres is not None and rres[0] == "ok"
    viol = []

    def V(key, clause, detail):
        if not viol:
            viol.append({"key": key, "clause": clause, "detail":
                         detail + " | offer name %r kind %s output-file %r "
                         "accept=%s answer=%r pre=%s members=%r" %
                         (name, kind, output_file, accept, answer, pre,
                          [m[0] for m in members][:6])})
    rel_dest = os.path.relpath(dest, base)
    rel_tmp = rel_dest + ".tmp"

    def allowed(rel):
        if rel == rel_dest:
            return True
        if kind == "directory" and rel.startswith(rel_dest + os.sep):
            return True
        if rel == rel_tmp and not tmp_preexisted and kind == "file":
            return True
        return False
    changed = []
    for k in set(before) | set(after):
        if k.startswith("send" + os.sep) and k not in after and k in before:
            pass
        b, a = before.get(k), after.get(k)
        if b != a:
            changed.append(k)
    if env_paths:
        # what the other party created is not the receiver's doing -- unless
        # the receiver then changed or removed it
        for k in list(changed):
            if k in env_paths and after.get(k) is not None and (
                    (after[k][0] == "dir" and env == "mkdir") or
                    after[k][1] in (
                        b"belongs to the other session",
                        b"written by someone else")):
                changed.remove(k)
        for k in sorted(env_paths):
            a = after.get(k)
            if a is None or (a[0] == "dir" and env == "file") or (
                    a[0] == "file" and a[1] not in (
                        b"belongs to the other session",
                        b"written by someone else")):
                if env == "mkdir":
                    V("C05.directory_deleted", "an existing directory is "
                      "never deleted (nor its content replaced)",
                      "%r, created by someone else during the transfer, was "
                      "%s" % (k, "removed" if a is None else "overwritten"))
                elif kind == "directory" and (
                        output_file is None or os.path.abspath(
                            os.path.join(cwd, output_file)) != dest):
                    # (when --output-file names the destination itself the
                    # user asked for it to be replaced; for a file offer the final rename replaces whatever
                    # sits there - inherent; unpacking a directory has no
                    # business deleting a file)
                    V("C05.existing_file_replaced", "an existing file is "
                      "replaced only when --output-file names it or the "
                      "existing directory containing it",
                      "%r, a file somebody else put at the destination while "
                      "the directory was being received, was deleted / "
                      "replaced" % (k,))
    for k in sorted(changed):
        b, a = before.get(k), after.get(k)
        if allowed(k) and k != rel_dest and b is not None and b[0] != "dir":
            # beneath the announced destination, but it was there before:
            # neither named by --output-file nor directly inside the directory
            # --output-file names (that one file is rel_dest itself)
            V("C05.existing_file_replaced", "an existing file is replaced only "
              "when --output-file names it or the existing directory "
              "containing it",
              "pre-existing %r was %s by unpacking over the existing "
              "directory %r" % (k, "removed" if a is None else "replaced",
                                rel_dest))
            break
        if allowed(k):
            continue
        what = "created" if b is None else ("removed" if a is None else
                                            "modified")
        if k == rel_tmp and tmp_preexisted:
            V("C05.clobbered_preexisting_tmp" + (
                "" if kind == "file" else ".directory_offer"),
              "the receiver writes only to "
              "the single destination it announced; an existing file is "
              "replaced only when --output-file names it",
              "pre-existing unrelated %r was %s (announced destination %r)" %
              (k, what, rel_dest))
        else:
            V("C05.outside_write", "the receiver writes only to the single "
              "destination it announced (and, for directories, beneath it)",
              "%r was %s; announced destination %r" % (k, what, rel_dest))
        break
    if not viol and changed and bn in ("", ".", "..") and (
            output_file is None or os.path.isdir(
                os.path.abspath(os.path.join(cwd, output_file)))
            and os.path.join(cwd, output_file) != dest):
        # the destination is derived from the offer's basename, and that
        # basename names no child at all: nothing may be written
        V("C05.degenerate_name_written", "the destination is a child of the "
          "working directory (or the --output-file target) named by the "
          "offer's basename",
          "offer basename %r resolves to %r, which is not a child of the "
          "target directory, yet %r changed" % (bn, rel_dest,
                                                sorted(changed)[:4]))
    for d in before_dirs:
        if d not in after or after[d][0] != "dir":
            V("C05.directory_deleted", "an existing directory is never "
              "deleted", "%r disappeared" % d)
    if dest_preexisted and output_file is None:
        if r_ok:
            V("C05.success_over_existing", "without --output-file an existing "
              "destination makes the transfer fail", "destination %r "
              "pre-existed, receive succeeded" % rel_dest)
        if before.get(rel_dest) != after.get(rel_dest) or any(
                k.startswith(rel_dest + os.sep) for k in changed):
            V("C05.existing_changed", "without --output-file an existing "
              "destination is left unchanged", "%r changed" % rel_dest)
    if dest_preexisted and not dest_was_dir and output_file is not None:
        # replacing an existing file is sanctioned only if --output-file names
        # it or the existing directory containing it: by construction of
        # `dest` that is the case here; nothing else may have been replaced
        pass
    w_res = result.get("sender")
    hostile = (os.path.basename(name) != name or name in ("", ".", "..") or
               any(m[0] not in ("ok.txt", "sub/ok2.txt", "ünï.txt", "dir/",
                                "sub/") for m in members))
    nontrivial = hostile or dest_preexisted or tmp_preexisted
    if r_ok:
        sim.note("probe.receive_succeeded")
    if changed:
        sim.note("probe.something_written")
    for etype, text, why in w.log.errors:
        sim.note("logged." + etype)
    import json
    return {"violation": viol[0] if viol else None, "nontrivial": nontrivial,
            "digest": sim.hexdigest() + "%08x" % (hash(json.dumps(
                [name, kind, output_file, accept, answer, pre,
                 [m[0] for m in members]])) & 0xffffffff),
            "trace": sim.trace,
            "stats": {"steps": sim.steps, "sim_s": sim.now() - 1000.0,
                      "notes": sim.notes},
            "sample": {"seed": seed, "kind": kind, "name": name,
                       "output_file": output_file, "accept_file": accept,
                       "answer": answer, "pre_existing": pre,
                       "members": members[:6], "receive": None if rres is None
                       else (rres[0] if rres[0] == "ok" else
                             type(rres[1]).__name__),
                       "sender": w_res, "announced": rel_dest,
                       "changed": sorted(changed)[:8]}}


if __name__ == "__main__":
    import sys
    sys.exit(runner.main(sys.modules[__name__]))
