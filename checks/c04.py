"""C04 - a completed transfer is byte-exact; success is never reported
otherwise."""
import ast
import errno
import os

from simlib import boot  # noqa: F401
from simlib import runner
from simlib.core import HarnessError
from worlds.cli import CliWorld, snapshot
from worlds.transit import unwrap
from checks.c12 import Corruptor

from twisted.internet.defer import inlineCallbacks
import wormhole
from wormhole import transit
from wormhole.cli import cmd_receive, cmd_send
from wormhole.util import bytes_to_dict, dict_to_bytes, bytes_to_hexstr

PROP = "C04"
LEVEL = "fault_enumeration"
QUICK_S = 50
THOROUGH_S = 900
TECHNIQUE = ("deterministic simulation of the real cmd_send.Sender and "
             "cmd_receive.Receiver (real wormhole + real transit) with real "
             "files in a scratch directory: cut / corruption points of the "
             "transit stream enumerated per record boundary, chunkings by the "
             "scheduler, disk errors, a Byzantine receiver; tree-equality and "
             "no-false-success oracle")
RULE = ("Enumerated part: files of 0, 1, 16384, 16385, 40000 bytes, the "
        "transit link cut at every record boundary, inside the length prefix, "
        "after it, mid-record, one byte before the end, inside the handshake, "
        "and before / inside the acknowledgement (other direction); one-byte "
        "corruption at the same points; retry after an interrupted attempt "
        "(its partial <name>.tmp of 0 / 1 / 16384 bytes still on disk). Seeded part: one evaluation = one "
        "simulated transfer of a tape-generated payload (text with quotes / "
        "backslashes / control / non-BMP characters; files of sizes around "
        "record multiples; directory trees with empty directories, nesting, "
        "odd names, empty files, permission bits) with a tape-chosen fault "
        "(none, cut or flip at a random stream offset in either direction, "
        "ENOSPC/EIO on the n-th write or on rename, a receiver that "
        "acknowledges with a wrong hash or ack!=ok), direct or via the relay, "
        "mailbox reconnects during negotiation. Non-trivial: a file or "
        "directory was transferred in more than one chunk or a fault fired. "
        "Distinct: event-log digests among non-trivial runs.")
RULE += (' Also: retry after an interrupted attempt (stale <name>.tmp), and a transit path that replays / duplicates a genuine record frame.')
RULE += (' Texts and offered names include sequences that are not in Unicode NFC form.')
RULE += (" Seeded runs also include a receiver whose free-space estimate is below / at / just above the announced size (refusal paths), and --verify on both sides with a sending user who confirms after some dithering or refuses.")
RULE += (' Directory trees include the project/project shape (the only entry is a directory named like the tree).')
RULE += (' The offered file may grow between the offer and the transfer (by bytes that stay inside the last record, or by more).')
RULE += (' File contents are random bytes in half of the runs and structured otherwise (all NUL, NUL tail or head of any length, short patterns such as CR LF / ^Z / 0xff repeated).')
LEVEL_TEXT = ("Fault enumeration over cut/corruption points of fixed payloads "
              "plus seeded exploration. Oracle: receive() success => the tree "
              "at the announced destination equals what the sender read, "
              "byte for byte (text: the printed line un-escapes to the "
              "text); send() success => receive side has that exact tree; a "
              "cut/corruption before the receiver has every byte => neither "
              "side succeeds and the final destination does not exist (a "
              "leftover .tmp is allowed); ack lost / wrong hash / ack!=ok => "
              "send() does not succeed; a final destination that exists is "
              "never partial.")
LEVEL_NOTE = ("Real files on the sandbox disk in a per-run mkdtemp() outside "
              "/repo and /verif, removed at run end. SPAKE2 stand-in; "
              "websocket stub; simulated TCP.")
ASSUMPTIONS = ["simulated TCP", "message-framed websocket stub"]
COMPONENTS = {"real": ["wormhole.cli.cmd_send / cmd_receive", "wormhole."
                       "transit", "wormhole client", "zipstream-ng, zipfile, "
                       "twisted FileSender", "wormhole_mailbox_server",
                       "wormhole_transit_relay (some runs)"],
              "stub": ["Autobahn", "kernel TCP", "SPAKE2 stand-in",
                       "tqdm progress disabled"]}

HS_S2R = 87 + 3          # sender handshake + "go\n"
HS_R2S = 89
REC_CHUNK = 16384
SWEEP_SIZES = (0, 1, 16384, 16385, 40000)
TEXTS = ("hello", "", "it's", 'say "hi"', "both ' and \"", "back\\slash",
         "tab\tnewline\nbell\x07", "ünïcödé \U0001F600  ", "\x1b[31mred",
         "a" * 5000, " ",
         # not in Unicode NFC form: must arrive as the same code points
         "re\u0301sume\u0301", "\u212b ngstro\u0308m \u2126",
         "\u1112\u1161\u11ab")
NAMES = ("plain.txt", "with space.bin", "ünï.dat", "quote'.txt", "a.b.c",
         "UPPER", "x" * 100, "dash-name", ".hidden", "2024\\Q3 report.bin",
         "back\\up", "semi;colon", "star*", "tab\tname",
         "re\u0301sume\u0301.txt", "\u212bngstrom.dat")


def record_layout(size):
    """[(offset, length)] of the record frames in the s->r stream."""
    out = []
    off = HS_S2R
    left = size
    while left > 0:
        n = min(REC_CHUNK, left)
        out.append((off, n + 44))
        off += n + 44
        left -= n
    return out, off


def sweep(tier):
    out = []
    for size in SWEEP_SIZES:
        recs, total = record_layout(size)
        pts = set([0, 10, 86, 87, 89, HS_S2R])
        for (o, ln) in recs:
            for p in (o, o + 1, o + 4, o + 28, o + 44, o + ln // 2,
                      o + ln - 1):
                pts.add(p)
        pts.add(total)              # nothing cut: the whole stream passes
        for p in sorted(pts):
            out.append({"payload": ["file", size], "fault": ["s2r", "cut", p]})
            if p < total:
                out.append({"payload": ["file", size],
                            "fault": ["s2r", "flip", p]})
        for p in (0, 50, HS_R2S, HS_R2S + 2, HS_R2S + 30, HS_R2S + 100):
            out.append({"payload": ["file", size], "fault": ["r2s", "cut", p]})
        for p in (HS_R2S + 1, HS_R2S + 30, HS_R2S + 60):
            out.append({"payload": ["file", size], "fault": ["r2s", "flip", p]})
    for size in (1, 16385, 40000):
        for k in (0, 1, 16384):
            out.append({"payload": ["file", size], "stale": k})
    # a faulty relay re-sends an earlier genuine record
    for size, nfr in ((32768, 2), (40000, 3), (49152, 3), (16385, 2)):
        for k in range(1, nfr):
            for j in range(k):
                out.append({"payload": ["file", size],
                            "fault": ["s2r", "replace", k, j]})
                out.append({"payload": ["file", size],
                            "fault": ["s2r", "dup", k, j]})
    return out


def configs(tier):
    return [{}]


_REAL_FREE_SPACE = cmd_receive.estimate_free_space
_REAL_BUILD_OFFER = cmd_send.Sender._build_offer


def content(tape, size, tag):
    """File contents: half of the time random bytes, otherwise structured --
    all NUL (a sparse image), random bytes with a NUL tail / NUL head (padded
    archives), or a short pattern repeated (CR/LF, ^Z, 0xff ...). Nothing on
    the path may treat contents specially."""
    b = tape.blob(size, tag)
    kind = tape.choose(8, "ckind")
    if kind < 4 or size == 0:
        return b
    if kind == 4:
        return bytes(size)
    if kind == 5:
        k = tape.choose(size + 1, "ztail")
        return b[:k] + bytes(size - k)
    if kind == 6:
        k = tape.choose(size + 1, "zhead")
        return bytes(k) + b[k:]
    pat = tape.pick((b"line\r\n", b"\n", b"\r", b"\x1a", b"\xff",
                     b"\x00\x01", b"PK\x03\x04"), "pat")
    return (pat * (size // len(pat) + 1))[:size]


def make_tree(tape, root):
    os.mkdir(root)
    n = tape.choose(7, "nent")
    dirs = [root]
    if tape.choose(6, "nested_same") == 0:
        # the project/project layout: the only entry of the tree is a
        # directory called like the tree itself
        inner = os.path.join(root, os.path.basename(root))
        os.mkdir(inner)
        dirs = [inner]
    for i in range(n):
        parent = tape.pick(dirs, "parent")
        k = tape.choose(4, "ekind")
        name = "%s%d" % (tape.pick(("f", "ü f", "d.d", "X"), "en"), i)
        p = os.path.join(parent, name)
        if k == 0:
            os.mkdir(p)
            dirs.append(p)
        else:
            size = tape.pick((0, 1, 100, 16384, 20000), "fsz")
            with open(p, "wb") as f:
                f.write(content(tape, size, i))
            os.chmod(p, tape.pick((0o644, 0o600, 0o755, 0o444), "mode"))


class FrameReplayer:
    """Transit path that re-sends an earlier, genuine record frame: in place
    of frame k ('replace') or in front of it ('dup'). Has .feed/.fired/.cut
    like Corruptor."""

    def __init__(self, kind, k, j, skip):
        self.kind, self.k, self.j = kind, k, j
        self.skip = skip            # handshake bytes that precede the frames
        self.buf = bytearray()
        self.frames = []
        self.fired = False
        self.cut = False

    def feed(self, data):
        out = bytearray()
        if self.skip:
            n = min(self.skip, len(data))
            out += data[:n]
            self.skip -= n
            data = data[n:]
        self.buf += data
        while len(self.buf) >= 4:
            ln = int.from_bytes(self.buf[:4], "big")
            if len(self.buf) < 4 + ln:
                break
            fr = bytes(self.buf[:4 + ln])
            del self.buf[:4 + ln]
            i = len(self.frames)
            self.frames.append(fr)
            if i == self.k and self.j < i and not self.fired:
                self.fired = True
                old = self.frames[self.j]
                out += old if self.kind == "replace" else old + fr
            else:
                out += fr
        return bytes(out)


class FaultyFile:
    def __init__(self, f, fail_at, err):
        self._f = f
        self._n = 0
        self._fail_at = fail_at
        self._err = err
        self.name = f.name

    def write(self, data):
        self._n += 1
        if self._n == self._fail_at:
            raise OSError(self._err, os.strerror(self._err))
        return self._f.write(data)

    def __getattr__(self, k):
        return getattr(self._f, k)


def run_one(seed, tape, opts):
    w = CliWorld(tape, opts)
    try:
        return _run(seed, tape, opts, w)
    finally:
        cmd_receive.open = open
        cmd_receive.os = os
        cmd_receive.estimate_free_space = _REAL_FREE_SPACE
        cmd_send.Sender._build_offer = _REAL_BUILD_OFFER
        w.cleanup()


def _run(seed, tape, opts, w):
    sim = w.sim
    sim.allow_advance = False
    fixed = "payload" in opts
    if fixed:
        payload = opts["payload"]
        fault = opts.get("fault")
        sim.chunk_mode = tape.pick(("all", "mixed", "small"), "cm")
    else:
        kind = tape.pick(("text", "file", "file", "dir"), "pk")
        if kind == "text":
            payload = ["text", tape.pick(TEXTS, "text")]
        elif kind == "file":
            payload = ["file", tape.pick((0, 1, 16383, 16384, 16385, 32767,
                                          32768, 32769, 70000), "fs")]
        else:
            payload = ["dir", None]
        fault = None
        fk = tape.choose(8, "faultkind")
        if kind != "text" and fk == 1:
            fault = [tape.pick(("s2r", "r2s"), "fd"), "cut",
                     tape.choose(200, "foff") if tape.choose(3, "early") == 0
                     else tape.choose(80000, "foff2")]
        elif kind != "text" and fk == 2:
            fault = ["s2r", "flip", HS_S2R + tape.choose(40000, "fo3")]
        elif kind == "file" and fk == 5:
            fault = ["s2r", tape.pick(("replace", "dup"), "rk"),
                     1 + tape.choose(4, "rk_k"), 0]
            fault[3] = tape.choose(fault[2], "rk_j")
        elif kind != "text" and fk == 3:
            fault = ["disk", tape.pick(("write", "rename"), "dk"),
                     1 + tape.choose(4, "dn")]
        elif kind != "text" and fk == 4:
            fault = ["byz", tape.pick(("wrong_hash", "not_ok", "no_ack",
                                       "garbage"), "bz"), 0]
        elif kind != "text" and fk == 6 and tape.choose(2, "space?") == 0:
            # the receiver's disk is (nearly) full: the free-space estimate
            # is below / at / just above what the offer announces
            fault = ["space", tape.pick((0, 1, -1, "exact", "plus1"), "free"),
                     0]
        elif kind == "file" and fk == 6:
            # the file grows after it was offered (a log still being written,
            # a download still running): by a few bytes that stay inside the
            # last record, or by more
            fault = ["grow", tape.pick((1, 10, 300, 20000), "grow_k"),
                     tape.choose(120, "grow_at")]
        elif fk == 7:
            # --verify on both sides: the sending user is asked to confirm
            # the verifier and answers after some dithering, or refuses
            fault = ["verify", tape.pick((["yes"], ["YES"], ["", "maybe",
                                                             "yes"],
                                          ["no"], ["y", "No"]), "vans"), 0]
        if tape.choose(4, "relay") == 0 and not fault:
            w.start_relay()
    code = "%d-sim-code" % (1 + tape.choose(90, "np"))
    name = tape.pick(NAMES, "name") if not fixed else "data.bin"
    src = os.path.join(w.send_dir, name)
    extra = []
    if payload[0] == "text":
        extra = ["--text", payload[1]]
    elif payload[0] == "file":
        with open(src, "wb") as f:
            f.write(content(tape, payload[1], 1) if not fixed
                    else tape.blob(payload[1], 1))
        extra = [name]
    else:
        make_tree(tape, src)
        extra = [name + ("/" if tape.choose(3, "slash") == 0 else "")]
    # history: an earlier attempt at the same transfer was interrupted and
    # left its partial '<name>.tmp' behind (the only durable trace of it)
    stale = opts.get("stale")
    if stale is None and not fixed and payload[0] == "file" and \
            tape.choose(4, "stale?") == 0:
        stale = tape.pick((0, 1, 16384, 30000), "stale_n")
    if stale is not None and payload[0] == "file":
        with open(src, "rb") as f:
            prefix = f.read()[:stale]
        if tape.choose(3, "stale_garbage") == 0:
            prefix += b"\xee" * 7
        with open(os.path.join(w.recv_dir, name + ".tmp"), "wb") as f:
            f.write(prefix)
        sim.note("fault.stale_tmp_from_interrupted_attempt")
    if stale is None and not fixed and payload[0] == "dir" and \
            tape.choose(4, "stale_dir?") == 0:
        # an unrelated directory '<name>.tmp' with files in it sits beside
        # the destination of a directory transfer
        base_name = name
        for leaf in ("old-draft.txt", "sub/stale.bin"):
            pth = os.path.join(w.recv_dir, base_name + ".tmp", leaf)
            os.makedirs(os.path.dirname(pth), exist_ok=True)
            with open(pth, "wb") as f:
                f.write(b"left here earlier: " + leaf.encode())
        sim.note("fault.stale_tmp_directory")
    want = snapshot(w.send_dir)
    # faults on the transit link
    cors = {}
    if fault and fault[0] in ("s2r", "r2s") and fault[1] in ("replace",
                                                              "dup"):
        cors[fault[0]] = FrameReplayer(fault[1], fault[2], fault[3], HS_S2R)
    elif fault and fault[0] in ("s2r", "r2s"):
        cors[fault[0]] = Corruptor("truncate" if fault[1] == "cut" else "flip",
                                   fault[2], 1 << (fault[2] % 8))

    def on_transit_link(link):
        def tam(end_to, data):
            p = unwrap(end_to.protocol)
            owner = getattr(p, "owner", None)
            if owner is None:
                return data
            d = "r2s" if owner.is_sender else "s2r"
            c = cors.get(d)
            if c is None:
                return data
            out = c.feed(data)
            if c.cut:
                c.cut = False
                end_to.inflight += out
                sim.note("fault.cut")
                sim.net.cut(link)
                return b""
            return out
        link.tamper = tam
    w.on_transit_link = on_transit_link
    if fault and fault[0] == "disk":
        if fault[1] == "write":
            def faulty_open(path, mode="r", *a, **k):
                f = open(path, mode, *a, **k)
                if "w" in mode and str(path).endswith(".tmp"):
                    sim.note("fault.disk_error_armed")
                    return FaultyFile(f, fault[2], tape.pick(
                        (errno.ENOSPC, errno.EIO), "errno"))
                return f
            cmd_receive.open = faulty_open
        else:
            class OsProxy:
                def __getattr__(self, k):
                    return getattr(os, k)

                def rename(self, a, b):
                    sim.note("fault.rename_error")
                    raise OSError(errno.EIO, "sim: rename failed")
            cmd_receive.os = OsProxy()
    space_rejects = False
    if fault and fault[0] == "space":
        announced = [None]

        def free_space(target):
            # what the offer announced is in the Receiver's hands by now
            n = fault[1]
            size = os.path.getsize(src) if payload[0] == "file" else \
                sum(len(v[1]) for v in want.values() if v[0] == "file")
            if n == "exact":
                n = size
            elif n == "plus1":
                n = size + 1
            elif n == -1:
                n = max(0, size - 1)
            announced[0] = (n, size)
            sim.note("fault.free_space_estimate")
            return n
        cmd_receive.estimate_free_space = free_space
    grown = {"done": False, "clean": False}
    if fault and fault[0] == "grow":
        offer_built = [None]
        orig_build = cmd_send.Sender._build_offer

        def build_offer(self_):
            r_ = orig_build(self_)
            offer_built[0] = sim.steps
            return r_
        cmd_send.Sender._build_offer = build_offer

        def grow_tick():
            # (after the offer was made: the size announced is the old one)
            if grown["done"] or offer_built[0] is None or \
                    sim.steps < offer_built[0] + fault[2] % 40:
                return
            grown["done"] = True
            # only judged when no transit byte had moved yet (the sender reads
            # the file once the receiver has answered)
            grown["clean"] = not w.transit_links
            with open(src, "ab") as f:
                f.write(tape.blob(fault[1], 77))
            sim.ev("env", "source_file_grew", fault[1])
            sim.note("fault.file_mutation")
        sim.after_step = grow_tick
    vargs = []
    if fault and fault[0] == "verify":
        vargs = ["--verify"]
        w.inputs = list(fault[1]) + ["no"] * 3
        sim.note("fault.verify_prompt")
    # mailbox faults during negotiation
    if not fixed:
        from checks import common_a as ca
        ca.pick_faults(tape, w, ("cut", "server_restart"), 1)
    no_listen_r = fixed or tape.choose(2, "rl") == 0
    w.send("--code", code, *(vargs + extra))
    if fault and fault[0] == "byz":
        byz_receiver(w, code, fault[1])
    else:
        rargs = ["--accept-file"] + vargs
        if no_listen_r:
            rargs.append("--no-listen")
        w.receive(*(rargs + [code]))

    def done():
        return "send" in w.results and ("receive" in w.results or
                                        (fault and fault[0] == "byz"))
    sim.run(60000, until=done, max_time=400)
    w.heal()
    r = sim.run(60000, until=done, max_time=400)
    viol = []

    def V(key, clause, detail):
        if not viol:
            viol.append({"key": key, "clause": clause, "detail": detail})
    sres = w.results.get("send")
    rres = w.results.get("receive")
    s_ok = sres is not None and sres[0] == "ok"
    r_ok = rres is not None and rres[0] == "ok"
    got = snapshot(w.recv_dir)
    dest = name
    if grown["done"] and grown["clean"] and s_ok and r_ok:
        # both report success: what the sender read is the file as it was
        # when the transfer began, i.e. after it grew
        now = snapshot(w.send_dir)
        if not _same_tree({k: v for k, v in now.items() if k == dest},
                          {k: v for k, v in got.items() if k == dest}, False):
            viol_grow = ("C04.send_success_wrong_tree", "when both sides "
                         "report success the receiver has exactly what the "
                         "sender read", "the offered file grew by %d bytes "
                         "before the transfer began; both sides report "
                         "success, receiver has %d bytes, the sender read %d"
                         % (fault[1], len(got[dest][1]) if dest in got else
                            -1, len(now[dest][1])))
        else:
            viol_grow = None
    else:
        viol_grow = None
    fired = bool(fault and (
        (fault[0] in cors and cors[fault[0]].fired) or
        fault[0] in ("disk", "byz", "grow")))
    if viol_grow:
        V(*viol_grow)
    if payload[0] == "text":
        line = w.recv_cfg.stdout.getvalue()
        if r_ok or s_ok:
            if not line.endswith("\n") or _unescape(line[:-1]) != payload[1]:
                V("C04.text_differs", "a text message is reproduced exactly, "
                  "up to the receiver's terminal-safe escaping",
                  "sent %r, receiver printed %r" % (payload[1], line))
    else:
        # what should exist at the destination
        want_tree = {k: v for k, v in want.items()
                     if k == dest or k.startswith(dest + os.sep)}
        got_tree = {k: v for k, v in got.items()
                    if k == dest or k.startswith(dest + os.sep)}
        exists = dest in got
        exact = _same_tree(want_tree, got_tree, payload[0] == "dir")
        if exists and not exact and payload[0] == "file":
            V("C04.partial_destination", "no final destination file appears "
              "unless it is complete and exact",
              "%r exists with %s; fault %r" %
              (dest, _describe_diff(want_tree, got_tree), fault))
        if r_ok and not exact:
            V("C04.receive_success_wrong_tree", "when receive reports success "
              "the tree produced is byte-for-byte what the sender read",
              "%s; payload %r fault %r" %
              (_describe_diff(want_tree, got_tree), payload, fault))
        if s_ok and not exact:
            V("C04.send_success_wrong_tree", "when send reports success the "
              "receiver has exactly what the sender read",
              "%s; payload %r fault %r; receive result %r" %
              (_describe_diff(want_tree, got_tree), payload, fault, rres))
        if fault and fault[0] == "byz" and fault[1] != "no_sha" and s_ok:
            V("C04.sender_success_bad_ack." + fault[1], "if the "
              "acknowledgement is lost or carries a different hash the "
              "sender does not report success", "byzantine receiver %r" %
              (fault[1],))
        if fault and fault[0] == "disk" and (r_ok or s_ok):
            if not exact:
                V("C04.success_after_disk_error", "success is never reported "
                  "when the file could not be written", "fault %r" % (fault,))
        if fixed and fault and fault[0] == "s2r":
            recs, total = record_layout(payload[1])
            c = cors["s2r"]
            if c.fired and fault[2] < total:
                if s_ok or r_ok:
                    V("C04.success_after_cut", "if the data stream is cut or "
                      "corrupted before the receiver has every byte, neither "
                      "side reports success",
                      "size %d, %s at s->r offset %d of %d: send=%r "
                      "receive=%r" % (payload[1], fault[1], fault[2], total,
                                      sres, rres))
                if exists:
                    V("C04.destination_after_cut", "and no final destination "
                      "file appears", "size %d, %s at offset %d: %r exists" %
                      (payload[1], fault[1], fault[2], dest))
            elif not c.fired and not (s_ok and r_ok) and r == "until":
                V("C04.no_success_without_fault", "an undisturbed transfer "
                  "succeeds", "size %d: send=%r receive=%r" %
                  (payload[1], sres, rres))
        if fixed and fault and fault[0] == "r2s" and cors["r2s"].fired:
            if s_ok:
                V("C04.sender_success_ack_lost", "if the receiver's "
                  "acknowledgement is lost the sender does not report success",
                  "size %d, %s at r->s offset %d" %
                  (payload[1], fault[1], fault[2]))
    if not fault and r == "until" and not (s_ok and r_ok) and \
            not w.faults_fired:
        V("C04.no_success_without_fault", "an undisturbed transfer succeeds",
          "payload %r: send=%r receive=%r stderr=%r" %
          (payload, sres, rres, w.recv_cfg.stderr.getvalue()[-300:]
           if hasattr(w, "recv_cfg") else None))
    if r != "until":
        sim.note("settle_incomplete")
    multi = payload[0] != "text" and any(l.ends[0].rx_count + l.ends[1].rx_count
                                         > 40000 for l in w.transit_links)
    nontrivial = fired or multi or payload[0] == "dir"
    if s_ok and r_ok:
        sim.note("probe.both_success")
    for etype, text, why in w.log.errors:
        sim.note("logged." + etype)
    return {"violation": viol[0] if viol else None, "nontrivial": nontrivial,
            "digest": sim.hexdigest(), "trace": sim.trace,
            "stats": {"steps": sim.steps, "sim_s": sim.now() - 1000.0,
                      "notes": sim.notes},
            "sample": {"seed": seed, "payload": payload if payload[0] != "text"
                       else ["text", payload[1][:40]], "name": name,
                       "fault": fault, "send": _r(sres), "receive": _r(rres),
                       "relay": bool(w.relay_url),
                       "tree": sorted(k for k in want)[:8]}}


def _r(res):
    if res is None:
        return None
    return res[0] if res[0] == "ok" else "%s:%s" % (res[0],
                                                    type(res[1]).__name__)


def _unescape(line):
    for q in ("'", '"', "'''", '"""'):
        try:
            v = ast.literal_eval(q + line + q)
            if isinstance(v, str):
                return v
        except Exception:
            continue
    return None


def _same_tree(want, got, is_dir):
    if set(want) != set(got):
        return False
    for k, (kind, data, mode) in want.items():
        gk, gd, gm = got[k]
        if gk != kind or gd != data:
            return False
        if is_dir and kind == "file" and gm != mode:
            return False
    return True


def _describe_diff(want, got):
    missing = sorted(set(want) - set(got))
    extra = sorted(set(got) - set(want))
    diff = [k for k in want if k in got and (want[k][0] != got[k][0] or
                                             want[k][1] != got[k][1])]
    modes = [k for k in want if k in got and want[k][0] == "file" and
             want[k][2] != got[k][2]]
    return "missing %r extra %r content-differs %r mode-differs %r" % (
        missing[:4], extra[:4], diff[:4], modes[:4])


def byz_receiver(w, code, how):
    """A receiver built from the real library that misbehaves only in its
    acknowledgement."""
    sim = w.sim

    @inlineCallbacks
    def go():
        wh = wormhole.create("lothar.com/wormhole/text-or-file-xfer",
                             w.server.url, sim.reactor)
        wh.set_code(code)
        yield wh.get_verifier()
        tr = transit.TransitReceiver("", no_listen=True, reactor=sim.reactor)
        key = wh.derive_key("lothar.com/wormhole/text-or-file-xfer"
                            "/transit-key", tr.TRANSIT_KEY_LENGTH)
        tr.set_transit_key(key)
        size = None
        while size is None:
            m = bytes_to_dict((yield wh.get_message()))
            if "transit" in m:
                tr.add_connection_hints(m["transit"].get("hints-v1", []))
                hints = yield tr.get_connection_hints()
                wh.send_message(dict_to_bytes({"transit": {
                    "abilities-v1": tr.get_connection_abilities(),
                    "hints-v1": hints}}))
            if "offer" in m:
                o = m["offer"]
                size = o["file"]["filesize"] if "file" in o else \
                    o["directory"]["zipsize"]
        wh.send_message(dict_to_bytes({"answer": {"file_ack": "ok"}}))
        rp = yield tr.connect()
        got = 0
        while got < size:
            rec = yield rp.receive_record()
            got += len(rec)
        sim.note("fault.byzantine_ack." + how)
        if how == "wrong_hash":
            rp.send_record(dict_to_bytes({"ack": "ok", "sha256": "00" * 32}))
        elif how == "not_ok":
            rp.send_record(dict_to_bytes({"ack": "nope"}))
        elif how == "garbage":
            rp.send_record(b"{}")
        rp.close()
        yield wh.close()
    d = go()
    d.addErrback(lambda f: sim.note("probe.byz_receiver_failed"))


if __name__ == "__main__":
    import sys
    sys.exit(runner.main(sys.modules[__name__]))
