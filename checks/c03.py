"""C03 - mailbox messages arrive in order, exactly once, unmodified."""
from simlib import boot  # noqa: F401
from simlib import runner
from checks import common_a

PROP = "C03"
LEVEL = "exploration"
QUICK_S = 40
THOROUGH_S = 900
RULE = ("Each evaluation is one seeded simulated execution of two real "
        "wormhole.create() clients against the real mailbox server: code mode, "
        "API style, 0..N messages per direction with generated contents and "
        "send_message() timing, scheduler weights, chunk of enabled events and "
        "a fault sequence (cut, half-open, server restart, refuse/hang, "
        "duplicated / reordered / re-delivered `message` events) all drawn "
        "from the seed. Non-trivial: at least 2 messages in one direction AND "
        "(a reconnect happened or a dup/reorder/replay fault fired). Distinct: "
        "distinct blake2 digests of the full event log among non-trivial runs.")
TECHNIQUE = ("deterministic simulation: seeded search over schedules, mailbox "
             "fault sequences and workloads; prefix-of-sent oracle after every "
             "event")
RULE += (' Two of eight configurations make both sides dilate as well (dilate-N control messages share the mailbox with application phases).')
RULE += (' Two further configurations hold long conversations (11..16 messages each way, phase numbers with two digits) on a reordering server.')
RULE += (' Two configurations run at scale (18..40 messages each way): a reader that starts late, and a reader that keeps 11..25 get_message() Deferreds outstanding.')
RULE += (' In some configurations clients are pipelined readers (1..3 get_message() Deferreds outstanding, re-issued from each callback).')
LEVEL_TEXT = ("Seeded exploration (no enumeration) of two real clients + real "
              "mailbox server under a simulated reactor/network; safety oracle "
              "evaluated after every simulated event. Evidence, not proof: a "
              "clean batch means no counterexample among the sampled "
              "schedules/fault sequences.")
LEVEL_NOTE = ("Trusts the simulated transport contract (FIFO, loss only by "
              "cut), the message-framed websocket stub and, in 7/8 of runs, a "
              "SPAKE2 stand-in with the same algebra.")
ASSUMPTIONS = [
    "Autobahn WebSocket framing is replaced by a message-framed stub; TCP by "
    "the simulated network (FIFO per direction, loss only by cutting).",
    "7 of 8 runs use a hash-based SPAKE2 stand-in (same algebra), 1 of 8 the "
    "real spake2 package.",
]
COMPONENTS = {
    "real": ["wormhole.create() and all mailbox machines", "Twisted "
             "ClientService/HostnameEndpoint", "wormhole_mailbox_server 0.8.0 "
             "command handlers + SQLite", "PyNaCl SecretBox", "HKDF"],
    "stub": ["Autobahn websocket (message-framed stub)", "kernel TCP/DNS "
             "(simulated network)", "SPAKE2 in 7/8 of runs (hash stand-in)"],
}

FAULTS = ("cut", "half_open", "server_restart", "refuse", "hang", "mbox_dup",
          "mbox_reorder", "mbox_replay_stored")


def configs(tier):
    out = []
    for i in range(8):
        out.append({"spake": "real" if i == 0 else "stub", "reentrant": i % 3 == 1,
                    "faults": i % 4 != 1, "reorder_heavy": i % 2 == 0,
                    "dilate": i in (2, 5), "pipeline": i in (3, 4, 6),
                    "max_msgs": 6 if tier == "quick" else 12})
    # long conversations (11..16 messages each way) on a reordering server
    out.append({"spake": "stub", "faults": True, "reorder_heavy": True,
                "max_msgs": 16, "min_msgs": 11})
    out.append({"spake": "stub", "faults": False, "reorder_heavy": True,
                "max_msgs": 16, "min_msgs": 11, "reentrant": True,
                "pipeline": True})
    # scale: 18..40 messages each way; a reader that starts late (nothing
    # asks for the messages meanwhile), or one that keeps 11..25 reads
    # outstanding and re-issues them from the callbacks
    out.append({"spake": "stub", "faults": False, "max_msgs": 40,
                "min_msgs": 18, "slow_reader": True})
    out.append({"spake": "stub", "faults": True, "max_msgs": 40,
                "min_msgs": 20, "pipeline": "deep"})
    return out


def run_one(seed, tape, opts):
    w, a, b = common_a.build_pair(tape, opts, max_msgs=opts.get("max_msgs", 6))
    sim = w.sim
    for c, peer in ((a, "B"), (b, "A")):
        c.script += [("wait_all_delivered", peer), ("close",)]
    if opts.get("faults", True):
        w.fault_kinds = tuple(k for k in FAULTS if tape.choose(4, "fk") != 0)
        w.fault_budget = tape.choose(7, "fbudget")
    violation = []
    checked = {"A": 0, "B": 0}

    def oracle():
        if violation:
            return
        for x, y in ((a, b), (b, a)):
            n = len(x.received)
            if n > checked[x.name]:
                for i in range(checked[x.name], n):
                    if i >= len(y.sent) or x.received[i] != y.sent[i]:
                        violation.append({
                            "key": "C03.prefix",
                            "clause": "received sequence is a prefix of the "
                                      "peer's sent sequence",
                            "detail": "%s received[%d]=%r but %s sent=%r" % (
                                x.name, i, x.received[i][:40], y.name,
                                [m[:20] for m in y.sent])})
                        return
                checked[x.name] = n
    sim.after_step = oracle

    def done():
        return bool(violation) or (a.is_closed and b.is_closed)
    sim.run(3000, until=done)
    w.heal()
    r = sim.run(6000, until=done, max_time=900)
    if r != "until":
        sim.note("settle_incomplete")
    w.finish()
    for c in (a, b):
        if c.api_errors:
            sim.note("api_error")
    reconnects = sum(1 for l in sim.net.links if l.mode == "message") - 2
    msgfault = any(f[1].startswith("mbox") for f in w.faults_fired) or \
        sim.notes.get("fault.mbox_unordered_delivery", 0) > 0
    if not violation and not opts.get("faults", True) and r == "until":
        # fault-free configuration: strict completeness as a sanity check
        for x, y in ((a, b), (b, a)):
            if x.received != y.sent and not _legit_short(x, y):
                violation.append({
                    "key": "C03.faultfree_complete",
                    "clause": "without faults every sent message is received "
                              "before both sides close happily",
                    "detail": "%s received %d of %d" % (x.name, len(x.received),
                                                        len(y.sent))})
                break
    if reconnects > 0:
        sim.note("reconnects", reconnects)
    nontrivial = (max(len(a.sent), len(b.sent)) >= 2 and
                  (reconnects > 0 or msgfault))
    return {
        "violation": violation[0] if violation else None,
        "nontrivial": nontrivial,
        "digest": sim.hexdigest(),
        "trace": sim.trace,
        "stats": {"steps": sim.steps, "sim_s": sim.now() - 1000.0,
                  "notes": sim.notes},
        "sample": {"seed": seed, "mode": w.mode, "apis": [a.api, b.api],
                   "script_A": [_short(o) for o in a.script],
                   "script_B": [_short(o) for o in b.script],
                   "faults": w.faults_fired[:12],
                   "closed": [repr(a.closed_results), repr(b.closed_results)]},
    }


def _legit_short(x, y):
    return False


def _short(op):
    return [o if not isinstance(o, bytes) else "<%d bytes>" % len(o)
            for o in op]


if __name__ == "__main__":
    import sys
    sys.exit(runner.main(sys.modules[__name__]))
