"""C12 - Dilation L2 framing/encryption/encoding is lossless and rejects
unkeyed input."""
from simlib import boot  # noqa: F401
from simlib import runner
from simlib.core import Sim, HarnessError
from worlds.mailbox import LogCatcher
from worlds.dilation import unwrap

from zope.interface import implementer
from twisted.internet import protocol
from wormhole._interfaces import IDilationManager
from wormhole.eventual import EventualQueue
from wormhole._hints import parse_hint
from wormhole._dilation.connector import (Connector, PROLOGUE_LEADER,
                                          PROLOGUE_FOLLOWER)
from wormhole._dilation.roles import LEADER, FOLLOWER
from wormhole._dilation.connection import (KCM, Ping, Pong, Open, Data, Close,
                                           Ack, DilatedConnectionProtocol)

PROP = "C12"
LEVEL = "fault_enumeration"
QUICK_S = 40
THOROUGH_S = 900
TECHNIQUE = ("deterministic simulation of a pair of real L2 protocols built "
             "by the real Connector (own Noise) over a simulated byte stream: "
             "all chunkings by the scheduler, corruption offsets / "
             "truncations / wrong keys / wrong prologues enumerated; record-"
             "equality and drop oracle at the manager boundary")
RULE = ("Enumerated part: a single-byte flip at every offset of the relay "
        "reply, prologue, Noise handshake frames and KCM in both directions "
        "(direct and relay paths), at sampled offsets of the record frames, "
        "truncation at sampled points, wrong PSK, wrong prologue, frame "
        "delete/duplicate/swap/inject. Seeded part: one evaluation = one "
        "simulated execution with tape-generated records of all seven types "
        "(ids/seqnums from {0,1,2^31,2^32-1}, payloads around 0, 65509..65511 "
        "(the 65519/65520 Noise boundary incl. the 9-byte header), 2*65519"
        "+-1, 200000 bytes, non-ASCII subprotocol names), sent both ways under "
        "scheduler-chosen TCP chunking, plus strangers (wrong key, random "
        "bytes, HTTP). Non-trivial: at least one multi-chunk delivery or a "
        "manipulation fired. Distinct: event-log digests among non-trivial "
        "runs.")
RULE += (' One configuration in four runs two independent sessions (different keys) in one process; fake managers also send 0..3 records in the very turn a connection is selected.')
RULE += (' A fifth configuration puts a junk line ahead of the genuine stream as a segment of its own, on transports whose buffers drain under scheduler control and which may deliver in-flight data after loseConnection().')
RULE += (' A sixth configuration writes a backlog of 40..159 records right behind the KCM (selection turn).')
RULE += (' A third of the sampled runs use managers that pause the L2 connection from inside got_record and resume later.')
LEVEL_TEXT = ("Fault enumeration over corruption points + seeded exploration "
              "of record values and chunkings. Oracle: the records the peer's "
              "manager receives are a prefix of the records handed to "
              "send_record, equal field by field; a stranger or a wrong-key "
              "peer never becomes a candidate; after a manipulation nothing "
              "from that frame or later is surfaced and, once the frame's "
              "claimed length has arrived, the transport was told to close.")
LEVEL_NOTE = ("Noise is the harness's own NNpsk0_25519_ChaChaPoly_BLAKE2s "
              "(not checked against the reference package): the check decides "
              "the repo's framing/chunking/rejection logic over an AEAD with "
              "Noise's interface and 65535-byte limit, not wire compatibility.")
ASSUMPTIONS = ["own Noise implementation (DESIGN.md 3.3)"]
COMPONENTS = {"real": ["_dilation.connection (_Framer/_Record/"
                       "DilatedConnectionProtocol)", "_dilation.connector "
                       "(build_protocol, listeners, outbound factories)",
                       "wormhole_transit_relay (relay path)"],
              "stub": ["Manager (recording fake at the IDilationManager "
                       "boundary)", "Noise (own)", "kernel TCP"]}

IDS = (0, 1, 2 ** 31, 2 ** 32 - 1)
PAYLOADS = (0, 1, 65509, 65510, 65511, 65512, 131028, 131029, 131037, 131038,
            131039, 200000)
NAMES = ("p", "proto-ü", "名前", "x" * 300, "",
         # not in Unicode NFC form: field values travel as they are
         "cafe\u0301", "\u212bngstrom", "\u1112\u1161\u11ab", "\ufb01le")


@implementer(IDilationManager)
class FakeManager:
    def __init__(self, world, name):
        self.w = world
        self.name = name
        self.records = []
        self.conn = None
        self.made = 0
        self.lost = 0
        self.hints_out = []
        self.peer = None

    def send_hints(self, hints):
        self.hints_out.append(hints)
        self.w.sim.ev("hints", self.name)
        if self.peer is not None and self.peer.connector is not None:
            objs = [h for h in (parse_hint(x) for x in hints) if h]
            self.peer.connector.got_hints(objs)

    def _hint_status(self, hints):
        pass

    def have_peer(self, conn):
        pass

    def connector_connection_made(self, c):
        self.made += 1
        self.conn = c
        self.w.sim.ev("l2_selected", self.name)
        # like the real Manager's replay of its outbound queue: records go
        # out in the very turn the connection is selected (on the Leader:
        # right behind its KCM, before the Follower has selected)
        for r in getattr(self, "early", ()):
            try:
                c.send_record(r)
            except Exception as e:
                self.early_error = (type(r).__name__, e)
                break

    def connector_connection_lost(self):
        self.lost += 1
        self.w.sim.ev("l2_lost", self.name)

    # a consumer that applies back-pressure: pauses the L2 connection from
    # inside record delivery (as Inbound does when a subchannel's
    # application pauses), resumed later by a scheduler event
    pause_now = None
    paused = False

    def got_record(self, r):
        self.records.append(r)
        self.w.sim.ev("record", self.name, type(r).__name__)
        if self.pause_now is not None and not self.paused and \
                self.conn is not None and self.pause_now():
            self.paused = True
            self.conn.pauseProducing()

    def resume(self):
        self.paused = False
        self.w.sim.ev("l2_resume", self.name)
        self.conn.resumeProducing()


class World:
    def __init__(self, tape, opts):
        self.sim = Sim(tape)
        if opts.get("_trace"):
            self.sim.trace = []
        self.sim.randomize()
        self.sim.allow_advance = False
        self.log = LogCatcher()
        self.eq = EventualQueue(self.sim.reactor)

    def connector(self, fm, key, role, relay, no_listen, side):
        c = Connector(key, relay, fm, self.sim.reactor, self.eq, no_listen,
                      None, None, side, role)
        fm.connector = c
        return c


JUNK = (b"HTTP/1.1 400 Bad Request\r\n\r\n", b"\n", b"ok\n",
        b"Magic-Wormhole Dilation Handshake v1 Leader\n\n"[:-1] + b"x\n",
        b"bad handshake\n", b"x" * 80 + b"\n",
        b"impatient\n", b"Magic-Wormhole Dilation Handshake v0 Leader\n\n")


class Corruptor:
    """Byte-offset manipulations on one direction of one link."""

    def __init__(self, kind, offset=None, value=1):
        self.kind = kind
        self.offset = offset
        self.value = value
        self.count = 0
        self.fired = False
        self.cut = False

    def feed(self, data):
        start = self.count
        self.count += len(data)
        if self.fired or self.offset is None:
            return data
        if start <= self.offset < start + len(data):
            i = self.offset - start
            self.fired = True
            if self.kind == "flip":
                return data[:i] + bytes([data[i] ^ self.value]) + data[i + 1:]
            if self.kind == "truncate":
                self.cut = True
                return data[:i]
            if self.kind == "insert":
                return data[:i] + b"\x00" + data[i:]
            if self.kind == "junk_first":
                # a junk line ahead of the genuine stream (delivered as a
                # segment of its own: see the chunker in run_one)
                return JUNK[self.value % len(JUNK)] + data
            if self.kind == "delete":
                return data[:i] + data[i + 1:]
        return data


def gen_record(tape, i):
    # (the seventh type, KCM, travels exactly once per connection as the
    # key-confirmation frame that selection itself depends on; a second KCM is
    # not something the Manager ever sends)
    k = 1 + tape.choose(6, "rtype")
    if k == 1:
        return Ping(tape.blob(4, i))
    if k == 2:
        return Pong(tape.blob(4, i))
    if k == 3:
        return Open(tape.pick(IDS, "sq"), tape.pick(IDS, "sc"),
                    tape.pick(NAMES, "nm"))
    if k == 4:
        n = tape.pick(PAYLOADS, "pl") if tape.choose(3, "big") == 0 else \
            tape.choose(50, "sm")
        return Data(tape.pick(IDS, "sq"), tape.pick(IDS, "sc"),
                    tape.blob(n, i))
    if k == 5:
        return Close(tape.pick(IDS, "sq"), tape.pick(IDS, "sc"))
    return Ack(tape.pick(IDS, "sq"))


FIXED = [Ping(b"\x00\x01\x02\x03"), Open(0, 1, "proto-u\u0308"),
         Data(1, 1, b"d" * 65510), Data(2 ** 32 - 1, 2 ** 31, b""),
         Ack(2 ** 32 - 1), Data(3, 1, b"e" * 131029), Close(4, 1),
         Pong(b"\xff\xff\xff\xff")]


def sweep(tier):
    out = []
    for topo in ("direct", "relay"):
        for direction in ("l2f", "f2l"):
            # handshake phase: relay reply + prologue + 2 frames + KCM ~ 200 B
            for off in range(0, 230):
                out.append({"fixed": True, "topo": topo, "corrupt":
                            [direction, "flip", off, 1 << (off % 8)]})
            step = 9973 if tier == "quick" else 997
            for off in range(230, 400000, step):
                out.append({"fixed": True, "topo": topo, "corrupt":
                            [direction, "flip", off, 1 << (off % 8)]})
            for off in (0, 1, 10, 44, 45, 46, 50, 98, 99, 150, 200, 1000,
                        65600, 70000, 140000, 300000):
                out.append({"fixed": True, "topo": topo, "corrupt":
                            [direction, "truncate", off, 0]})
            for off in (0, 45, 100, 200, 70000):
                out.append({"fixed": True, "topo": topo, "corrupt":
                            [direction, "insert", off, 0]})
                out.append({"fixed": True, "topo": topo, "corrupt":
                            [direction, "delete", off, 0]})
        out.append({"fixed": True, "topo": topo, "wrong_psk": True})
    return out


def configs(tier):
    # the fifth: a junk line ahead of the genuine stream (a middlebox's
    # error page, a stale relay reply), on transports whose send buffers
    # drain when the scheduler says so and which may go on delivering what
    # is in flight after loseConnection()
    return [{"fixed": False}, {"fixed": False}, {"fixed": False},
            {"two_sessions": True}, {"fixed": False, "junk_first": True},
            {"fixed": False, "backlog": True}]


def run_two_sessions(seed, tape, opts):
    """Two independent dilation sessions (different keys) in one process,
    their L2 connections coming up interleaved, each sending records in the
    selection turn and afterwards: each manager gets exactly its own peer's
    records, nothing of the other session's."""
    w = World(tape, opts)
    sim = w.sim
    viol = []

    def V(key_, clause, detail):
        if not viol:
            viol.append({"key": key_, "clause": clause, "detail": detail})
    pairs = []
    for n in range(2):
        key = tape.blob(32, 20 + n)
        topo = tape.pick(("direct", "reverse"), "topo2")
        ML, MF = FakeManager(w, "L%d" % n), FakeManager(w, "F%d" % n)
        ML.peer, MF.peer = MF, ML
        ML.connector = MF.connector = None
        CL = w.connector(ML, key, LEADER, None, topo == "reverse",
                         "a%d" % n * 8)
        CF = w.connector(MF, key, FOLLOWER, None, topo == "direct",
                         "b%d" % n * 8)
        recs = {}
        for d, mg in (("l2f", ML), ("f2l", MF)):
            mg.early = [gen_record(tape, 60 + 10 * n + i)
                        for i in range(tape.choose(4, "nearly2"))]
            recs[d] = list(mg.early) + [gen_record(tape, 80 + 10 * n + i)
                                        for i in range(tape.choose(5, "nrec2"))]
        pairs.append({"ML": ML, "MF": MF, "CL": CL, "CF": CF, "recs": recs,
                      "sent": {"l2f": len(ML.early), "f2l": len(MF.early)},
                      "started": False})

    def app_events():
        evs = []
        for i, pr in enumerate(pairs):
            if not pr["started"]:
                def start(pr=pr):
                    pr["started"] = True
                    pr["CL"].start()
                    pr["CF"].start()
                evs.append(("start:%d" % i, start))
                continue
            for d, tx in (("l2f", pr["ML"]), ("f2l", pr["MF"])):
                if tx.conn is not None and pr["sent"][d] < len(pr["recs"][d]):
                    def send(pr=pr, d=d, tx=tx):
                        r = pr["recs"][d][pr["sent"][d]]
                        pr["sent"][d] += 1
                        try:
                            tx.conn.send_record(r)
                        except Exception as e:
                            V("C12.send_record_raised", "send_record accepts "
                              "every record", "%s -> %r" % (_short(r), e))
                    evs.append(("send:%d:%s" % (i, d), send))
        return evs
    sim.app_events = app_events

    def oracle():
        for i, pr in enumerate(pairs):
            for d, mgr in (("l2f", pr["MF"]), ("f2l", pr["ML"])):
                got = mgr.records
                want = pr["recs"][d]
                if _typed(got) != _typed(want[:len(got)]):
                    j = next((j for j in range(len(got)) if j >= len(want) or
                              _typed([got[j]]) != _typed([want[j]])),
                             len(got))
                    V("C12.record_differs", "every record handed to an L2 "
                      "connection is recovered identically by the peer (and "
                      "nothing else reaches the manager)",
                      "session %d %s record %d: got %s, its peer sent %s" %
                      (i, d, j, _short(got[j]),
                       _short(want[j]) if j < len(want) else None))
                    return

    def complete():
        return all(pr["started"] and pr["ML"].made and pr["MF"].made and
                   all(pr["sent"][d] >= len(pr["recs"][d]) for d in
                       pr["sent"]) for pr in pairs) and \
            not any(len(e.inflight) for l in sim.net.links for e in l.ends)
    sim.after_step = oracle
    sim.run(30000, until=lambda: bool(viol) or complete(), max_time=100)
    sim.run(500, max_time=5)
    oracle()
    for pr in pairs:
        for mg in (pr["ML"], pr["MF"]):
            if getattr(mg, "early_error", None):
                V("C12.send_record_raised", "send_record accepts every "
                  "record", "%s (sent in the selection turn) -> %r" %
                  mg.early_error)
    if not viol:
        for i, pr in enumerate(pairs):
            if not (pr["ML"].made and pr["MF"].made):
                V("C12.no_connection", "an unmanipulated pair completes the "
                  "L2 handshake", "session %d" % i)
            for d, mgr in (("l2f", pr["MF"]), ("f2l", pr["ML"])):
                if _typed(mgr.records) != _typed(pr["recs"][d]):
                    V("C12.incomplete", "without manipulation every record "
                      "arrives", "session %d %s: %d of %d" %
                      (i, d, len(mgr.records), len(pr["recs"][d])))
    w.log.stop()
    sim.note("probe.two_sessions_in_one_process")
    return {"violation": viol[0] if viol else None, "nontrivial": True,
            "digest": sim.hexdigest(), "trace": sim.trace,
            "stats": {"steps": sim.steps, "sim_s": sim.now() - 1000.0,
                      "notes": sim.notes},
            "sample": {"seed": seed, "two_sessions": True,
                       "records": [{d: [_short(r) for r in pr["recs"][d]][:6]
                                    for d in pr["recs"]} for pr in pairs],
                       "delivered": [[len(pr["MF"].records),
                                      len(pr["ML"].records)] for pr in pairs]}}


class Junk(protocol.Protocol):
    def __init__(self, data):
        self.data = data

    def connectionMade(self):
        if self.data:
            self.transport.write(self.data)


class JunkFactory(protocol.ClientFactory):
    noisy = False

    def __init__(self, data):
        self.data = data

    def buildProtocol(self, addr):
        return Junk(self.data)


def run_one(seed, tape, opts):
    if opts.get("two_sessions"):
        return run_two_sessions(seed, tape, opts)
    w = World(tape, opts)
    sim = w.sim
    key = tape.blob(32, 5)
    key_f = tape.blob(32, 6) if opts.get("wrong_psk") else key
    topo = opts.get("topo") or tape.pick(("direct", "reverse", "relay"),
                                         "topo")
    relay = None
    relay_factory = None
    if topo == "relay":
        from worlds.transit import TransitWorld
        # reuse the relay starter without building a TransitWorld
        from wormhole_transit_relay.transit_server import (Transit,
                                                           TransitConnection)
        from wormhole_transit_relay.usage import create_usage_tracker
        f = protocol.ServerFactory()
        f.protocol = TransitConnection
        f.log_requests = False
        f.noisy = False
        f.transit = Transit(create_usage_tracker(blur_usage=None,
                                                 log_file=None, usage_db=None),
                            sim.reactor.seconds)
        sim.reactor.listenTCP(4001, f)
        relay = "tcp:10.0.0.9:4001"
        relay_factory = f
    ML, MF = FakeManager(w, "L"), FakeManager(w, "F")
    ML.peer, MF.peer = MF, ML
    ML.connector = MF.connector = None
    CL = w.connector(ML, key, LEADER, relay, topo in ("reverse", "relay"),
                     "aa" * 8)
    CF = w.connector(MF, key_f, FOLLOWER, relay, topo in ("direct", "relay"),
                     "bb" * 8)
    corrupt = opts.get("corrupt")
    cor = {}
    if corrupt is None and not opts.get("fixed") and tape.choose(3, "cor?") == 0:
        corrupt = [tape.pick(("l2f", "f2l"), "cd"),
                   tape.pick(("flip", "flip", "truncate", "insert", "delete"),
                             "ck"),
                   tape.choose(300, "coff") if tape.choose(2, "early") else
                   tape.choose(200000, "coff2"), 1 << tape.choose(8, "cbit")]
    if opts.get("junk_first"):
        corrupt = [tape.pick(("l2f", "f2l"), "cd"), "junk_first", 0,
                   tape.choose(len(JUNK), "junk")]
        sim.net.autoflush = False
        sim.net.high_water = 1 << 20
        sim.net.window = 1 << 30
        if tape.choose(3, "ral"):
            sim.net.read_after_lose = True
            sim.note("probe.transport_reads_after_loseConnection")
    if corrupt:
        cor[corrupt[0]] = Corruptor(corrupt[1], corrupt[2],
                                    corrupt[3] if corrupt[1] == "junk_first"
                                    else corrupt[3] or 1)
    l2 = {}
    tampered_links = []

    def end_made(end):
        p = unwrap(end.protocol)
        if isinstance(p, DilatedConnectionProtocol):
            l2[p] = end
            if p._role is LEADER and not tampered_links:
                # tamper on the Leader's first link (both directions)
                tampered_links.append(end.link)

                def tam(end_to, data, leader_end=end):
                    d = "f2l" if end_to is leader_end else "l2f"
                    c = cor.get(d)
                    if c is None:
                        return data
                    out = c.feed(data)
                    if c.cut:
                        c.cut = False
                        end_to.inflight += out
                        sim.net.cut(leader_end.link)
                        return b""
                    return out
                if end.link.tamper is None:
                    end.link.tamper = tam
                if corrupt and corrupt[1] == "junk_first":
                    junk_len = len(JUNK[corrupt[3]])
                    rx = end if corrupt[0] == "f2l" else end.peer
                    base = rx.rx_count
                    link = end.link

                    def chunker(e, n, tape_):
                        got = e.rx_count - base
                        if e is rx and got < junk_len:
                            return junk_len - got
                        link.chunker = None
                        try:
                            return sim._chunk(e)
                        finally:
                            link.chunker = chunker
                    link.chunker = chunker
    sim.on_end_made = end_made
    early = {"l2f": [], "f2l": []}
    if not opts.get("fixed") and not opts.get("wrong_psk"):
        for d, mg in (("l2f", ML), ("f2l", MF)):
            n_early = tape.choose(4, "nearly")
            if opts.get("backlog"):
                # a side that comes back with a backlog: everything unacked
                # is written right behind the KCM, in the selection turn
                n_early = 40 + tape.choose(120, "nbacklog")
            early[d] = [gen_record(tape, 50 + i) for i in range(n_early)]
            mg.early = list(early[d])
        if early["l2f"] or early["f2l"]:
            sim.note("probe.records_sent_in_the_selection_turn")
    CL.start()
    CF.start()
    # strangers dial the listeners
    if not opts.get("fixed"):
        for port, lp in list(sim.net.listeners.items()):
            if port == 4001:
                continue
            k = tape.choose(4, "stranger")
            if k == 1:
                sim.reactor.connectTCP("10.1.0.1", port, JunkFactory(
                    tape.blob(1 + tape.choose(200, "jl"), 9)))
            elif k == 2:
                sim.reactor.connectTCP("10.1.0.1", port, JunkFactory(
                    b"GET / HTTP/1.0\r\n\r\n"))
            elif k == 3:
                sim.reactor.connectTCP("10.1.0.1", port, JunkFactory(
                    PROLOGUE_LEADER[:tape.choose(len(PROLOGUE_LEADER), "pp")]
                    + b"X\n"))
    sim.run(4000, until=lambda: ML.made and MF.made, max_time=50)
    recs = {"l2f": [], "f2l": []}
    viol = []

    def V(key_, clause, detail):
        if not viol:
            viol.append({"key": key_, "clause": clause, "detail": detail})
    bad_setup = opts.get("wrong_psk") or (corrupt and cor[corrupt[0]].fired)
    if not (ML.made and MF.made):
        if not bad_setup:
            V("C12.no_connection", "an unmanipulated pair completes the L2 "
              "handshake", "L made=%d F made=%d topo %s" % (ML.made, MF.made,
                                                            topo))
    for mg in (ML, MF):
        if getattr(mg, "early_error", None):
            V("C12.send_record_raised", "send_record accepts every record",
              "%s (sent in the selection turn) -> %r" % mg.early_error)

    def rejected_selected():
        # a manipulation inside the very first bytes of a direction (relay
        # reply / prologue): its receiver never selects that connection
        if not (corrupt and cor[corrupt[0]].fired and
                corrupt[2] < len(PROLOGUE_FOLLOWER) - 1):
            return
        mg = MF if corrupt[0] == "l2f" else ML
        c = mg.conn
        if c is not None and c in l2 and l2[c].link in tampered_links:
            V("C12.rejected_connection_selected", "a wrong prologue / wrong "
              "relay reply causes the connection to be dropped without "
              "anything from it reaching the manager", "%s selected the "
              "connection whose %s stream was manipulated (%r) at offset %d; "
              "topo %s" % (mg.name, corrupt[0], corrupt[1], corrupt[2], topo))
    rejected_selected()
    if opts.get("wrong_psk") and (ML.made or MF.made):
        V("C12.wrong_key_selected", "a handshake not produced with the "
          "dilation key never reaches the manager", "L made=%d F made=%d" %
          (ML.made, MF.made))
    if ML.made and MF.made and not viol:
        if opts.get("fixed"):
            recs = {"l2f": list(FIXED), "f2l": list(reversed(FIXED))}
        else:
            for d in recs:
                recs[d] = early[d] + [gen_record(tape, i)
                                      for i in range(tape.choose(8, "nrec"))]
        sent = {"l2f": len(early["l2f"]), "f2l": len(early["f2l"])}
        conns = {"l2f": ML.conn, "f2l": MF.conn}

        slow = not opts.get("fixed") and tape.choose(3, "slow_mgr") == 0
        pause_budget = [5]

        def pause_now():
            if not slow or pause_budget[0] <= 0 or \
                    tape.choose(3, "pause?") != 0:
                return False
            pause_budget[0] -= 1
            sim.note("probe.manager_paused_l2_connection")
            return True
        if slow:
            ML.pause_now = MF.pause_now = pause_now

        def app_events():
            evs = []
            for d in ("l2f", "f2l"):
                if sent[d] < len(recs[d]):
                    evs.append(("send:" + d, lambda d=d: send(d)))
            for mg in (ML, MF):
                if mg.paused:
                    evs.append(("resume:" + mg.name, mg.resume))
            return evs

        def send(d):
            r = recs[d][sent[d]]
            sent[d] += 1
            try:
                conns[d].send_record(r)
            except Exception as e:
                V("C12.send_record_raised", "send_record accepts every record",
                  "%r -> %r" % (type(r).__name__, e))
        sim.app_events = app_events

        def oracle():
            for d, mgr in (("l2f", MF), ("f2l", ML)):
                got = mgr.records
                if _typed(got) != _typed(recs[d][:len(got)]):
                    i = next((i for i in range(len(got))
                              if i >= len(recs[d]) or
                              _typed([got[i]]) != _typed([recs[d][i]])),
                             len(got))
                    V("C12.record_differs", "every record handed to an L2 "
                      "connection is recovered identically by the peer",
                      "%s record %d: got %s sent %s (corrupt=%r)" %
                      (d, i, _short(got[i]),
                       _short(recs[d][i]) if i < len(recs[d]) else None,
                       corrupt))
                    return
        sim.after_step = oracle
        sim.run(20000, until=lambda: bool(viol) or (
            all(sent[d] >= len(recs[d]) for d in sent) and
            not ML.paused and not MF.paused and
            not any(len(e.inflight) for l in sim.net.links for e in l.ends)),
            max_time=100)
        ML.pause_now = MF.pause_now = None
        for mg in (ML, MF):
            if mg.paused:
                mg.resume()
        sim.run(500, max_time=5)
        oracle()
        if not viol:
            for d, mgr in (("l2f", MF), ("f2l", ML)):
                c = cor.get(d)
                if c is None or not c.fired:
                    other = cor.get("f2l" if d == "l2f" else "l2f")
                    if other is None or not other.fired:
                        if _typed(mgr.records) != _typed(recs[d]):
                            V("C12.incomplete", "without manipulation every "
                              "record arrives", "%s: %d of %d" %
                              (d, len(mgr.records), len(recs[d])))
    # after a manipulation: the receiving transport was told to close once
    # everything had arrived (flips that enlarge a length prefix may stall)
    if corrupt and cor[corrupt[0]].fired and not viol:
        d = corrupt[0]
        rx_role = FOLLOWER if d == "l2f" else LEADER
        for p, end in l2.items():
            if p._role is rx_role and end.link in tampered_links and \
                    end.made:
                if end.alive and not end.transport.disconnecting and \
                        not len(end.inflight):
                    stalled = _maybe_length_flip(p)
                    if not stalled:
                        V("C12.not_dropped", "a corrupted frame causes the "
                          "connection to be dropped", "receiver of %s still "
                          "open after %r" % (d, corrupt))
                    else:
                        sim.note("probe.length_prefix_enlarged_stall")
    # strangers never become candidates
    for mgr in (ML, MF):
        if mgr.made > 1:
            V("C12.selected_twice", "one connection is selected", "%s made %d"
              % (mgr.name, mgr.made))
    w.log.stop()
    nontrivial = bool(corrupt and cor[corrupt[0]].fired) or \
        sim.chunk_mode != "all" or bool(opts.get("wrong_psk"))
    if corrupt and cor[corrupt[0]].fired:
        sim.note("fault.stream_tamper." + corrupt[1])
    return {"violation": viol[0] if viol else None, "nontrivial": nontrivial,
            "digest": sim.hexdigest(), "trace": sim.trace,
            "stats": {"steps": sim.steps, "sim_s": sim.now() - 1000.0,
                      "notes": sim.notes},
            "sample": {"seed": seed, "topo": topo, "corrupt": corrupt,
                       "records": {d: [_short(r) for r in recs[d]][:10]
                                   for d in recs},
                       "delivered": [len(MF.records), len(ML.records)],
                       "chunk_mode": sim.chunk_mode}}


def _maybe_length_flip(p):
    """True if the receiver is legitimately waiting for more bytes of a frame
    whose (corrupted) length prefix claims more than has arrived."""
    try:
        buf = p._record._framer._buffer
    except AttributeError:
        return False
    if len(buf) < 4:
        return len(buf) > 0
    claimed = int.from_bytes(buf[:4], "big")
    return len(buf) < 4 + claimed


def _typed(records):
    # the record classes are namedtuples: Ping(x) == Pong(x) by plain
    # equality, so the class is compared explicitly
    return [(type(r).__name__, tuple(r)) for r in records]


def _short(r):
    if r is None:
        return None
    d = r._asdict()
    for k, v in list(d.items()):
        if isinstance(v, (bytes, str)) and len(v) > 12:
            d[k] = "<%d>" % len(v)
    return "%s%r" % (type(r).__name__, d)


if __name__ == "__main__":
    import sys
    sys.exit(runner.main(sys.modules[__name__]))
