"""C07 - transit picks exactly one connection, chosen by the sender, key
holders only."""
from simlib import boot  # noqa: F401
from simlib import runner
from simlib.core import HarnessError
from worlds.transit import TransitWorld, unwrap, RELAY_HOST, RELAY_PORT

from twisted.internet import protocol
from wormhole import transit

PROP = "C07"
LEVEL = "exploration"
QUICK_S = 45
THOROUGH_S = 900
TECHNIQUE = ("deterministic simulation of the whole transit connection race: "
             "real TransitSender/Receiver, optional real relay, scripted "
             "strangers and wrong-key peers, handshakes progressing chunk by "
             "chunk in scheduler-chosen order, deadlines on the simulated "
             "clock; link-identity oracle from the simulator's ground truth")
RULE = ("One evaluation = one seeded execution: each side with or without a "
        "listener, direct hints (several addresses, some refusing / hanging), "
        "optional relay (real wormhole_transit_relay code), 0..3 strangers "
        "(silent, HTTP banner, echo, random bytes, right prefix then garbage, "
        "slow-loris, a real transit peer holding a different key) dialling in "
        "or being dialled, the receiver's key sometimes set late, contending "
        "links cut at any time. Non-trivial: at least two connections "
        "reached the handshake stage on some party, or a stranger connected, "
        "or a deadline expired. Distinct: event-log digests among non-trivial "
        "runs.")
RULE += (' Relay topologies: none, one shared, sender-only, dead, or one relay per side (two hints of equal priority).')
RULE += (" In a third of the runs one party's application cancels connect() while the race is open; sockets readable in the same reactor iteration are then still read once after loseConnection().")
RULE += (" Strangers include a host named in a relay hint that answers the "
         "relay request with 'ok' and, in the same write, bytes that are not "
         "the peer's handshake, and a key holder that speaks as a Sender "
         "which has decided against the connection (handshake and "
         "'nevermind' in one write).")
LEVEL_TEXT = ("Seeded exploration. Ground truth is which simulated link is "
              "which: the sender's winner must be a link whose far end is the "
              "keyed receiver and on which the full receiver handshake had "
              "arrived before 'go' was written; the receiver's winner must "
              "have seen sender handshake + 'go'; both winners are the two "
              "ends of one link; the sender writes 'go' at most once; at most "
              "one connection per party is in state 'records'; after settle "
              "(+70 s) all other links of both parties are closed and their "
              "listeners stopped; connect() fires no later than 2*TIMEOUT "
              "after it could start; in fault-free viable configurations both "
              "succeed.")
LEVEL_NOTE = ("Real transit.py and relay code; TCP simulated. `state == "
              "'records'` is read from the Connection objects as an "
              "observation point named by the property.")
ASSUMPTIONS = ["simulated TCP; hosts either accept, refuse or hang"]
COMPONENTS = {"real": ["wormhole.transit", "wormhole._hints",
                       "wormhole_transit_relay 0.5.0 TransitConnection",
                       "Twisted endpoints/TimeoutMixin"],
              "stub": ["kernel TCP", "strangers are scripted protocols"]}

STRANGER_KINDS = ("silent", "http", "echo", "random", "prefix", "slowloris",
                  "wrongkey", "close", "fake_relay", "nevermind")
# fake_relay: a host named in a relay hint that answers the relay request with
#   "ok\n" and, in the same write, something that is not the peer's handshake
#   (the bytes sit in the victim's buffer behind the completed "ok")
# nevermind: knows the transit key and speaks as a Sender that has decided
#   against this connection: handshake and "nevermind\n" in one write


class Stranger(protocol.Protocol):
    def __init__(self, world, kind, victim_is_sender, tape):
        self.w = world
        self.kind = kind
        self.vs = victim_is_sender
        self.tape = tape
        self.buf = b""

    def connectionMade(self):
        self.w.sim.note("probe.stranger_connected." + self.kind)
        k = self.kind
        if k == "http":
            self.transport.write(b"HTTP/1.1 400 Bad Request\r\n"
                                 b"Content-Length: 0\r\n\r\n")
        elif k == "random":
            self.transport.write(self.tape.blob(
                1 + self.tape.choose(120, "rlen"), 11))
        elif k == "prefix":
            good = (b"transit receiver " if self.vs else b"transit sender ")
            n = self.tape.choose(70, "plen")
            fake = good + b"0" * 64 + b" ready\n\n"
            self.transport.write(fake[:17 + n])
        elif k == "slowloris":
            self.data = (b"transit receiver " if self.vs else
                         b"transit sender ") + b"ab" * 32 + b" ready\n\n"
            self._drip()
        elif k == "close":
            self.transport.loseConnection()
        elif k == "nevermind":
            self.transport.write(transit.build_sender_handshake(self.w.key) +
                                 b"nevermind\n")

    def _drip(self):
        if not self.data or not self.transport.connected:
            return
        self.transport.write(self.data[:1])
        self.data = self.data[1:]
        self.w.sim.reactor.callLater(3.0, self._drip)

    def dataReceived(self, data):
        if self.kind == "echo":
            self.transport.write(data)
        if self.kind == "fake_relay" and self.buf is not None:
            self.buf += data
            if b"\n" in self.buf:
                self.buf = None
                t = self.tape
                n = 89 if self.vs else 87      # length of the handshake
                how = t.choose(4, "fr_how")
                if how == 0:
                    body = t.blob(n, 12)
                elif how == 1:
                    other = t.blob(32, 13)
                    body = (transit.build_receiver_handshake(other) if self.vs
                            else transit.build_sender_handshake(other))
                elif how == 2:
                    body = b"x" * n
                else:
                    body = t.blob(t.choose(2 * n, "fr_n"), 14)
                tail = b"" if self.vs else t.pick((b"go\n", b"", b"go\n" +
                                                   b"\x00" * 30), "fr_tail")
                self.transport.write(b"ok\n" + body + tail)


class StrangerFactory(protocol.ClientFactory):
    noisy = False

    def __init__(self, world, kind, victim_is_sender, tape):
        self.args = (world, kind, victim_is_sender, tape)

    def buildProtocol(self, addr):
        p = Stranger(*self.args)
        p.factory = self
        return p


def configs(tier):
    # the fifth: the relay is the only path (nobody listens, no strangers,
    # nobody cancels), with slow readers - reads coalesce, e.g. the relay's
    # "ok" and the peer's handshake in one chunk
    return [{"chunk": "small" if i % 2 else None} for i in range(4)] + \
        [{"chunk": None, "focus": "relay_only"}]


def run_one(seed, tape, opts):
    w = TransitWorld(tape, opts)
    sim = w.sim
    if opts.get("chunk"):
        sim.chunk_mode = opts["chunk"]
    net = sim.net
    focus = opts.get("focus")
    s_listens = tape.choose(3, "s_listens") != 0
    r_listens = tape.choose(3, "r_listens") != 0
    relay_mode = tape.pick(("none", "none", "both", "both", "sender_only",
                            "dead", "two"), "relay")
    if focus == "relay_only":
        s_listens = r_listens = False
        relay_mode = tape.pick(("both", "both", "two"), "relay_f")
    relay_s = relay_r = None
    if relay_mode == "two":
        # each side was configured with its own relay: after the hint
        # exchange both know two relays of equal priority
        relay_s = w.start_relay(RELAY_PORT)
        relay_r = w.start_relay(RELAY_PORT + 1)
    elif relay_mode in ("both", "sender_only"):
        url = w.start_relay()
        relay_s = url
        relay_r = url if relay_mode == "both" else None
    elif relay_mode == "dead":
        relay_s = relay_r = "tcp:%s:%d" % (RELAY_HOST, RELAY_PORT)
        net.port_mode[RELAY_PORT] = tape.pick(("refuse", "hang"), "deadrelay")
    S = w.make("S", True, relay=relay_s, no_listen=not s_listens)
    R = w.make("R", False, relay=relay_r, no_listen=not r_listens)
    hs, hr = w.hints_of(S), w.hints_of(R)
    # bogus extra hints (dead / refusing hosts, unused ports)
    def bogus():
        k = tape.choose(4, "bogus")
        if k == 0:
            net.host_mode["10.9.9.1"] = "hang"
            return {"type": "direct-tcp-v1", "priority": 0.0,
                    "hostname": "10.9.9.1", "port": 1234}
        if k == 1:
            net.host_mode["10.9.9.2"] = "refuse"
            return {"type": "direct-tcp-v1", "priority": 1.0,
                    "hostname": "10.9.9.2", "port": 1234}
        if k == 2:
            return {"type": "direct-tcp-v1", "priority": 0.0,
                    "hostname": "10.1.0.1", "port": 39999}
        return None
    hs = list(hs) + [h for h in (bogus(), bogus()) if h]
    hr = list(hr) + [h for h in (bogus(),) if h]
    # strangers
    nstr = tape.choose(4, "nstr") if not focus else tape.choose(3, "nstr_f")
    strangers = []
    wrongkey_parties = []
    for i in range(nstr):
        kind = tape.pick(STRANGER_KINDS, "skind")
        dial_in = tape.choose(2, "sdir") == 0
        victim_is_sender = tape.choose(2, "svict") == 0
        if focus:
            # the relay is the only real path, but a stale direct hint leads
            # to somebody who accepts the connection and then stalls (still
            # undecided when the delayed relay attempts are due)
            kind = tape.pick(("silent", "prefix", "slowloris"), "skind_f")
            dial_in = False
        if kind == "nevermind":
            victim_is_sender = False
        if kind == "fake_relay":
            dial_in = False
        strangers.append((kind, dial_in, victim_is_sender))
    # listed strangers: listeners that the victim will dial via a bogus hint
    for kind, dial_in, vs in strangers:
        if dial_in:
            continue
        if kind == "wrongkey":
            cls = transit.TransitReceiver if vs else transit.TransitSender
            t = cls(None, reactor=sim.reactor)
            t.set_transit_key(tape.blob(32, 123))
            out = []
            t.get_connection_hints().addCallback(out.append)
            wrongkey_parties.append(t)
            w.stranger_factories.add(t._listener_f)
            t.connect().addErrback(lambda f: None)
            hint = [h for h in out[0] if h["type"] == "direct-tcp-v1"][-1]
        else:
            f = StrangerFactory(w, kind, vs, tape)
            w.stranger_factories.add(f)
            port = sim.reactor.listenTCP(0, f)
            hint = {"type": "direct-tcp-v1", "priority": 0.5,
                    "hostname": "10.1.0.1", "port": port.port}
            if kind == "fake_relay":
                hint = {"type": "relay-v1", "hints": [hint]}
        if vs:
            hr = hr + [hint]     # hints given TO the sender come from "R"
        else:
            hs = hs + [hint]
    # deliver hints (mailbox path abstracted away)
    late_key = tape.choose(4, "latekey") == 0 and not focus
    S.t.set_transit_key(w.key)
    if not late_key:
        R.t.set_transit_key(w.key)
    S.t.add_connection_hints(hr)
    R.t.add_connection_hints(hs)
    t_start = {}
    viol = []

    def V(key, clause, detail):
        if not viol:
            viol.append({"key": key, "clause": clause, "detail": detail})

    def start(p):
        t_start[p.name] = sim.now()
        try:
            p.connect()
        except Exception as e:
            V("C07.connect_raised", "connect() does not raise", repr(e))
    pending_ops = [("S:connect", lambda: start(S)),
                   ("R:connect", lambda: start(R))]
    if late_key:
        pending_ops.append(("R:set_key",
                            lambda: R.t.set_transit_key(w.key)))
    # dial-in strangers
    for kind, dial_in, vs in strangers:
        if not dial_in:
            continue
        victim = S if vs else R
        vh = [h for h in (victim.hints or []) if h["type"] == "direct-tcp-v1"]
        if not vh:
            continue
        target = vh[-1]
        if kind == "wrongkey":
            def go(target=target, vs=vs):
                cls = transit.TransitReceiver if vs else transit.TransitSender
                t = cls(None, no_listen=True, reactor=sim.reactor)
                t.set_transit_key(tape.blob(32, 124))
                t.add_connection_hints([target])
                wrongkey_parties.append(t)
                t.connect().addErrback(lambda f: None)
            pending_ops.append(("stranger_dial:wrongkey", go))
        else:
            def go(target=target, kind=kind, vs=vs):
                sim.reactor.connectTCP(target["hostname"], target["port"],
                                       StrangerFactory(w, kind, vs, tape))
            pending_ops.append(("stranger_dial:" + kind, go))
    done_ops = set()

    # the application may give up: connect()'s Deferred is cancelled while
    # the race is still open (a fifth of the runs, either party)
    cancel_who = tape.pick((None, None, None, None, S, R), "cancel_who")
    if focus:
        cancel_who = None
    cancelled = []

    batch = [0]

    def do_cancel():
        cancelled.append(cancel_who.name)
        sim.ev("app_cancels_connect", cancel_who.name)
        sim.note("probe.connect_cancelled_by_application")
        # the cancel comes from inside some other socket's callback: sockets
        # that were readable in the same reactor iteration are still read
        # once after loseConnection() (stopReading only affects later polls)
        batch[0] = tape.choose(4, "batch")
        if batch[0]:
            net.read_after_lose = True
        cancel_who.connect_d.cancel()

    def end_of_batch():
        if batch[0] > 0:
            batch[0] -= 1
            if batch[0] == 0:
                net.read_after_lose = False

    def app_events():
        evs = [(lab, (lambda lab=lab, fn=fn: (done_ops.add(lab), fn())))
               for lab, fn in pending_ops if lab not in done_ops][:3]
        if cancel_who is not None and not cancelled and \
                cancel_who.connect_d is not None and \
                cancel_who.result is None:
            evs.append(("cancel:" + cancel_who.name, do_cancel))
        return evs
    # keep labels unique
    pending_ops = [("%s#%d" % (lab, i), fn)
                   for i, (lab, fn) in enumerate(pending_ops)]
    sim.app_events = app_events
    # faults: cut contending links
    cut_budget = [tape.choose(3, "cuts") if not focus else 0]

    # ... and slow readers: an end stops draining for a while (reads then
    # coalesce: e.g. the relay's "ok" and the peer's handshake in one chunk)
    stall_budget = [tape.choose(4, "stalls") if not focus else
                    1 + tape.choose(3, "stalls_f")]
    stalled_until = {}

    def stall(e):
        # bounded in simulated time (well under any protocol timeout), so
        # that an otherwise idle simulation wakes the reader up again
        stall_budget[0] -= 1
        e.stalled = True
        stalled_until[e] = True
        sim.note("fault.stall")

        def wake():
            e.stalled = False
            stalled_until.pop(e, None)
        sim.reactor.callLater(tape.pick((0.01, 0.3, 1.5), "stall_len"), wake)

    def unstall_due():
        pass

    def fault_events():
        evs = []
        if stall_budget[0] > 0:
            for link in net.links:
                for e in link.ends:
                    if link.up and e.alive and e.made and not e.stalled and \
                            isinstance(unwrap(e.protocol), transit.Connection):
                        evs.append(("stall:%d%s" % (link.serial, e.role),
                                    lambda e=e: stall(e), 2))
        if cut_budget[0] <= 0:
            return evs
        for link in net.links:
            if link.up and any(e.alive and e.made for e in link.ends):
                evs.append(("cut:%d" % link.serial,
                            lambda l=link: (cut_budget.__setitem__(
                                0, cut_budget[0] - 1), net.cut(l))))
        return evs
    sim.fault_events = fault_events
    go_writes = []

    # (same-iteration reads at the Sender's decision were tried here and taken
    # out again: the window was global, so a connection whose own handshake
    # timer had just fired - loseConnection() from a timer, where no read of
    # the same iteration can follow - still read "go": a false
    # C07.winner_closed. Cancelled contenders are "hung up" anyway.)
    go_batch = False

    def on_write(end, data):
        w._on_write(end, data)
        if data == b"go\n" and w.owner_of_end(end) is S:
            go_writes.append(end)
            if go_batch and batch[0] == 0 and not net.read_after_lose:
                # the decision is taken inside one socket's dataReceived:
                # other sockets that were readable in the same reactor
                # iteration are still read once although the Sender has just
                # called loseConnection() on them (a late contender then
                # completes its handshake and is told "nevermind")
                batch[0] = 1 + tape.choose(3, "go_batch_n")
                net.read_after_lose = True
                sim.note("probe.same_iteration_reads_at_decision")
    sim.on_write = on_write

    def party_conns(p):
        out = []
        for end in w.ends:
            pr = unwrap(end.protocol)
            if isinstance(pr, transit.Connection) and pr.owner is p.t:
                out.append((end, pr))
        return out

    def disturbed_net():
        return any(not l.up for l in net.links)

    def oracle():
        unstall_due()
        end_of_batch()
        if viol:
            return
        for p in (S, R):
            n = sum(1 for end, c in party_conns(p) if c.state == "records")
            if n > 1:
                V("C07.two_in_records", "at most one connection per side is "
                  "ever used", "%s has %d connections in state 'records'" %
                  (p.name, n))
        if len(go_writes) > 1:
            V("C07.go_twice", "the Sender confirms exactly one connection",
              "'go' written on ends %r" % [e.describe() for e in go_writes])
    sim.after_step = oracle

    def both_done():
        return bool(viol) or (S.result is not None and R.result is not None
                              and len(done_ops) == len(pending_ops))
    sim.run(6000, until=both_done, max_time=400)
    sim.chaos = False
    cut_budget[0] = 0
    stall_budget[0] = 0
    for e in list(stalled_until):
        e.stalled = False
    stalled_until.clear()
    r = sim.run(4000, until=both_done, max_time=400)
    deadline_hit = False
    # (g) deadline
    for p in (S, R):
        if viol:
            break
        if p.name not in t_start:
            continue
        key_time = t_start[p.name]
        if p is R and late_key:
            # connect() cannot start before the key exists
            pass
        if p.result is None:
            V("C07.connect_hangs", "if nothing can be negotiated connect() "
              "fails by its deadline instead of hanging",
              "%s.connect() not fired %.0f s after the call (relay=%s, "
              "listeners S=%s R=%s)" % (p.name, sim.now() - key_time,
                                         relay_mode, s_listens, r_listens))
        else:
            took = p.connect_fired_at - key_time
            lim = 2 * transit.TIMEOUT + 1
            if p is R and late_key:
                lim += 400
            if took > lim:
                V("C07.deadline", "connect() fires no later than 2*TIMEOUT "
                  "after it was called", "%s took %.1f s" % (p.name, took))
            if p.result[0] == "err" and took >= 2 * transit.TIMEOUT - 1:
                deadline_hit = True
    # winners
    for p_ in (S, R):
        if not viol and p_.result and p_.result[0] == "ok" and \
                not isinstance(p_.result[1], transit.Connection):
            V("C07.connect_result_not_a_connection", "connect() yields the "
              "one confirmed connection (both results are the two ends of one "
              "link) or fails", "%s.connect() fired with %r" %
              (p_.name, p_.result[1]))
    sw = S.result[1] if S.result and S.result[0] == "ok" else None
    rw = R.result[1] if R.result and R.result[0] == "ok" else None
    es = w.end_of_connection(sw) if sw is not None else None
    er = w.end_of_connection(rw) if rw is not None else None
    via_relay = False
    if not viol and sw is not None:
        peer = es.peer
        owner = w.owner_of_end(peer)
        if owner == "relay":
            via_relay = True
            # the relay glues two links: find the partner link by buddy
            pb = getattr(unwrap(peer.protocol), "_buddy", None)
        exp = transit.build_receiver_handshake(w.key)
        gw = [t for t in es.tx_log if t[2] == b"go\n"]
        if owner not in (R, "relay"):
            V("C07.sender_selected_stranger", "a party without the transit "
              "key is never selected", "sender's winner leads to %r" %
              (owner if isinstance(owner, str) else owner.name,))
        elif not gw:
            V("C07.winner_without_go", "the Sender confirms its winner with "
              "'go'", "no 'go' written on the winning link")
        else:
            rx_at_go = bytes(es.rx_log[:gw[0][1]])
            if exp not in rx_at_go:
                V("C07.go_before_handshake", "the Sender confirms only after "
                  "seeing the correct receiver handshake",
                  "bytes received before 'go': %r" % rx_at_go[-100:])
    if not viol and rw is not None:
        owner = w.owner_of_end(er.peer)
        exp = transit.build_sender_handshake(w.key) + b"go\n"
        if owner not in (S, "relay"):
            V("C07.receiver_selected_stranger", "a party without the transit "
              "key is never selected", "receiver's winner leads to %r" %
              (owner if isinstance(owner, str) else owner.name,))
        elif exp not in bytes(er.rx_log):
            V("C07.receiver_without_go", "the Receiver uses only a connection "
              "on which the correct sender handshake followed by 'go' arrived",
              "received %r" % bytes(er.rx_log[:120]))
    if not viol and rw is not None and sw is None and S.result is not None:
        V("C07.receiver_ok_sender_failed", "the Sender confirms exactly one "
          "connection, so both connect() results are the two ends of one "
          "link", "receiver's connect() returned a connection (so 'go' "
          "arrived on it) although the sender's connect() failed with %s%s" %
          (_res(S), " after the application cancelled it"
           if "S" in cancelled else ""))
    if not viol and sw is not None and rw is not None:
        same = es.link is er.link
        if not same and via_relay:
            # two links glued by the relay: sender-relay and relay-receiver
            a = unwrap(es.peer.protocol)
            b = unwrap(er.peer.protocol)
            same = any((x is a and y is b) or (x is b and y is a)
                       for x, y in getattr(w, "relay_pairs", []))
        if not same:
            V("C07.different_links", "both connect() results are the two ends "
              "of one link", "sender link %d, receiver link %d" %
              (es.link.serial, er.link.serial))
    # (e') the losers are closed when the decision is made, not merely when
    # their own 60 s handshake timer fires
    if not viol and r == "until" and (sw is not None or rw is not None):
        sim.run(400, max_time=2.0)
        for p, win in ((S, es), (R, er)):
            if p.result is None or p.result[0] != "ok":
                continue
            for end, c in party_conns(p):
                if end is win or not end.made:
                    continue
                if end.alive and not end.transport.disconnecting:
                    V("C07.loser_left_open", "every other connection is "
                      "closed (once connect() has returned the winner)",
                      "%s: %.1f s after connect() returned, link %d (peer %s) "
                      "is still open in state %r" %
                      (p.name, sim.now() - p.connect_fired_at,
                       end.link.serial, _oname(w.owner_of_end(end.peer)),
                       c.state))
                    break
    # (e) everything else closed, listeners stopped -- after the per-connection
    # timeout has had time to fire
    if not viol and r == "until":
        sim.run(6000, max_time=75)
        oracle()
        for p, win in ((S, es), (R, er)):
            if p.name in cancelled:
                # what is left behind after the application cancelled
                # connect() is outside the statement (counted, not gated)
                if any(getattr(lp.factory, "owner", None) is p.t
                       for lp in net.listeners.values()):
                    sim.note("probe.listener_left_after_application_cancel")
                continue
            # the selected connection itself stays usable: nothing but the
            # application (or the network) may close it
            if win is not None and win.transport.disconnecting:
                V("C07.winner_closed", "both connect() results are the two "
                  "ends of one link (only the *other* connections are closed)",
                  "%s: the selected connection (link %d) was closed %.0f s "
                  "after connect() returned it, by %s" %
                  (p.name, win.link.serial,
                   sim.now() - (p.connect_fired_at or sim.now()),
                   "its own side (loseConnection)"))
                break
            for end, c in party_conns(p):
                if end is win:
                    continue
                if end.alive and not end.transport.disconnecting:
                    V("C07.loser_not_closed", "every other connection is "
                      "closed", "%s: link %d (peer %s) still open, state %r" %
                      (p.name, end.link.serial,
                       _oname(w.owner_of_end(end.peer)), c.state))
            for port, lp in list(net.listeners.items()):
                if getattr(lp.factory, "owner", None) is p.t:
                    V("C07.listener_left", "listeners are shut down once "
                      "connect() is over", "%s still listens on %d" %
                      (p.name, port))
    # positive: viable and undisturbed => both succeed
    disturbed = cut_budget[0] != 0 or any(not l.up for l in net.links) or \
        sim.notes.get("advance_with_io_pending", 0) > 0
    viable = (s_listens or r_listens or relay_mode in ("both", "two"))
    if not viol and viable and not any(not l.up and l.ends[0].made
                                       for l in net.links) \
            and not sim.notes.get("advance_with_io_pending") and \
            not late_key and not cancelled:
        if sw is None or rw is None:
            V("C07.no_winner_when_possible", "among the contending "
              "connections the Sender confirms exactly one",
              "viable paths (S listens=%s, R listens=%s, relay=%s) and no "
              "fault, yet results %r / %r" %
              (s_listens, r_listens, relay_mode, _res(S), _res(R)))
    w.finish()
    handshaking = {p.name: len(party_conns(p)) for p in (S, R)}
    nontrivial = max(handshaking.values()) >= 2 or \
        any(k.startswith("probe.stranger_connected") for k in sim.notes) or \
        deadline_hit
    if deadline_hit:
        sim.note("probe.deadline_expired")
    if via_relay:
        sim.note("probe.winner_via_relay")
    if sw is not None and rw is not None:
        sim.note("probe.both_connected")
    if late_key:
        sim.note("probe.late_key")
    return {"violation": viol[0] if viol else None, "nontrivial": nontrivial,
            "digest": sim.hexdigest(), "trace": sim.trace,
            "stats": {"steps": sim.steps, "sim_s": sim.now() - 1000.0,
                      "notes": sim.notes},
            "sample": {"seed": seed, "listen": [s_listens, r_listens],
                       "relay": relay_mode, "strangers": strangers,
                       "late_key": late_key, "results": [_res(S), _res(R)],
                       "connections": handshaking,
                       "chunk_mode": sim.chunk_mode}}


def _oname(o):
    return o if isinstance(o, str) else o.name


def _res(p):
    if p.result is None:
        return None
    if p.result[0] == "ok":
        return "ok"
    return "err:" + p.result[1].type.__name__


if __name__ == "__main__":
    import sys
    sys.exit(runner.main(sys.modules[__name__]))
