"""C13 - subchannels open once, close once, and honour the subprotocol
contract."""
from simlib import boot  # noqa: F401
from simlib import runner
from checks import common_c as cc
from checks.common_a import interleave
from worlds.dilation import RecProtocol

from zope.interface import implementer
from twisted.internet.interfaces import IHalfCloseableProtocol

PROP = "C13"
LEVEL = "exploration"
QUICK_S = 45
THOROUGH_S = 900
TECHNIQUE = ("deterministic simulation of two real Dilation Managers with "
             "application protocols (normal and half-closeable) on "
             "subchannels: seeded interleavings of connect/listen/write/"
             "close on both sides and of record delivery, expected_"
             "subprotocols configurations, reconnects; per-callback oracle")
RULE = ("One evaluation = one seeded execution: each side declares "
        "expected_subprotocols from {unset, empty, subsets of a 3-name pool}, "
        "registers listeners before or after the peer's OPEN arrives, opens "
        "0..3 subchannels with names from the pool (also undeclared ones), "
        "writes before/after local and remote close, closes from either or "
        "both sides, with normal and IHalfCloseableProtocol applications, "
        "and 0..2 losses of the peer link. Non-trivial: at least one "
        "subchannel was opened and closed, or an undeclared OPEN was sent, "
        "or a listener was registered after the OPEN. Distinct: event-log "
        "digests among non-trivial runs.")
RULE += (' A connect() that fails is itself a violation.')
RULE += (' A fifth configuration uses transports with bounded send buffers drained by the scheduler (back-pressure reaches Outbound) and up to 4 losses; in half of the non-half-close runs protocols greet from inside connectionMade().')
RULE += (' In half of the non-half-close runs applications pause and resume subchannels (all resumed at the end) with at least two losses; not settling within 10000 events / 600 s after the last fault is a violation.')
RULE += (' Those applications also react from inside dataReceived (answer, answer and close, close) and sometimes open the next subchannel from inside connectionLost.')
RULE += (" Subprotocol names come from pools that include names differing only in Unicode normalisation form, case or surrounding blanks, and long names. A sixth configuration runs end to end over two real wormholes: the accepting side calls w.dilate(expected_subprotocols=<list|tuple|set|frozenset>), the opener opens 2..6 subchannels in bursts, listeners are registered before, between and after the bursts.")
LEVEL_TEXT = ("Seeded exploration. Each connect() => exactly one "
              "buildProtocol+connectionMade on the peer under the same name "
              "(at listen time if the listener comes later); ids allocated by "
              "the two sides are disjoint and never reused; at the peer's "
              "connectionLost all data written before the close has been "
              "delivered; each protocol sees connectionLost once and nothing "
              "after it; write after close raises; an OPEN outside the "
              "declared set is answered by CLOSE (opener sees connectionLost, "
              "nothing is built or held). Half-closeable protocols: see "
              "known findings.")
LEVEL_NOTE = ("Fast world (FIFO control channel, own Noise). Subchannel ids "
              "are read from the transport objects (the property names them).")
ASSUMPTIONS = ["own Noise implementation", "control channel FIFO per sender"]
COMPONENTS = {"real": ["_dilation.subchannel/inbound/outbound/manager/"
                       "connector/connection"],
              "stub": ["mailbox (FIFO control channel)", "Noise (own)",
                       "kernel TCP"]}

# subprotocol names of one run: plain ones, or names that differ only in
# Unicode normalisation form / case / surrounding blanks (distinct names, which
# must neither be conflated nor rewritten on the way), or long ones
POOLS = (("p1", "p2", "p3"), ("p1", "p2", "p3"), ("p1", "p2", "p3"),
         ("cafe\u0301", "caf\u00e9", "\u212bngstr\u00f6m"),
         ("P1", "p1", " p1"), ("\u1112\u1161\u11ab", "\ud55c", "x" * 300))
EXPECTED = (None, None, (), (0,), (0, 1), (0, 1, 2))


@implementer(IHalfCloseableProtocol)
class HalfRec(RecProtocol):
    def __init__(self, *a):
        RecProtocol.__init__(self, *a)
        self.read_lost = 0
        self.write_lost = 0
        self.half = True

    def readConnectionLost(self):
        self.read_lost += 1
        self.side.on_sub_event(self, "read_lost", None)

    def writeConnectionLost(self):
        self.write_lost += 1
        self.side.on_sub_event(self, "write_lost", None)


def configs(tier):
    # the fourth configuration: a burst of 51..80 opens of one subprotocol
    # arriving before the peer's listener exists
    # the fifth: transports with bounded send buffers that drain only when
    # the scheduler says so (back-pressure reaches Outbound), more losses
    return [{"half": False}, {"half": False}, {"half": True},
            {"half": False, "burst": True}, {"half": False, "staged": True},
            # the sixth: end to end through w.dilate(expected_subprotocols=..)
            {"e2e": True}]


class _Owner:
    def __init__(self, sim, name):
        self.sim = sim
        self.name = name
        self.protocols = []

    def on_sub_event(self, p, kind, data):
        self.sim.ev("sub", self.name, kind, p.name)


def run_e2e(seed, tape, opts):
    """The subprotocol contract end to end: two real wormholes, the accepting
    side calls w.dilate(expected_subprotocols=<list/tuple/set/frozenset/
    generator-free iterable>), the opener opens 2..6 subchannels in bursts,
    listeners are registered before / between / after the bursts."""
    from checks import common_a as ca
    from worlds.mailbox import MailboxWorld
    from worlds.dilation import RecFactory
    w = MailboxWorld(tape, dict(opts, spake="stub"))
    sim = w.sim
    sim.no_advance_while_connecting = True
    sim.allow_advance = False
    pool = tape.pick(POOLS, "pool")
    exp_idx = tape.pick(((0,), (0, 1), (0, 1, 2), (1, 2), (2, 0), None),
                        "exp")
    cont = tape.pick((list, tuple, set, frozenset), "cont")
    exp_b = None if exp_idx is None else cont(pool[i] for i in exp_idx)
    declared = set(pool) if exp_idx is None else set(pool[i] for i in exp_idx)
    a = w.add_client("A", api="deferred", dilation=True)
    b = w.add_client("B", api="deferred", dilation=True)
    code = ca.fixed_code(tape)
    a.script = [("set_code", code), ("dilate", {})]
    b.script = [("set_code", code),
                ("dilate", {"expected_subprotocols": exp_b})]
    viol = []

    def V(key, clause, detail):
        if not viol:
            viol.append({"key": key, "clause": clause, "detail": detail +
                         " | expected_subprotocols=%r" % (exp_b,)})

    def mgr(c):
        return c.w._boss._D._manager

    def connected():
        return all(mgr(c) is not None and mgr(c)._connection is not None
                   for c in (a, b))
    sim.run(8000, until=connected, max_time=300)
    if not connected():
        w.finish()
        return ca.result(sim, w, None, False, seed,
                         extra_sample={"e2e": True, "setup": "no connection"})
    oa, ob = _Owner(sim, "A"), _Owner(sim, "B")
    opened = []          # (name, factory)
    listening = set()

    def do_open():
        name = tape.pick(pool, "e_oname")
        f = RecFactory(oa, name, "opener")
        a.dilated.connector_for(name).connect(f)
        opened.append((name, f))

    def do_listen():
        left = [n for n in sorted(declared) if n not in listening]
        if left:
            n = tape.pick(left, "e_lname")
            listening.add(n)
            b.dilated.listener_for(n).listen(RecFactory(ob, n, "acceptor"))
    plan = ["open"] * (2 + tape.choose(5, "e_nopen")) + \
        ["listen"] * len(declared) + ["run"] * 3
    # bursts: the order of opens, listens and pauses comes from the tape
    order = []
    while plan:
        order.append(plan.pop(tape.choose(len(plan), "e_order")))
    for step in order:
        if step == "open":
            do_open()
        elif step == "listen":
            do_listen()
        else:
            sim.run(1 + tape.choose(80, "e_gap"), max_time=20)
    while len(listening) < len(declared):
        do_listen()
    # every opener writes one chunk as soon as it is connected

    def write_pending():
        for name, f in opened:
            for p in f.built:
                if p.made and not p.lost and not p.writes:
                    data = b"data for " + name.encode("utf-8")
                    try:
                        p.transport.write(data)
                        p.writes.append(data)
                    except Exception as e:
                        V("C13.e2e_write_failed", "a subchannel opened under "
                          "a declared name is usable", "%r: %r" % (name, e))
    sim.after_step = write_pending

    def settled():
        for name, f in opened:
            ps = f.built
            if not ps or not ps[0].made:
                return False
            if name in declared:
                q = [x for x in ob.protocols if x.made and x.scid ==
                     ps[0].scid]
                if not q or b"".join(q[0].data) != b"".join(ps[0].writes) \
                        or not ps[0].writes:
                    return False
            elif not ps[0].lost:
                return False
        return True
    r = sim.run(12000, until=lambda: bool(viol) or settled(), max_time=300)
    for name, f in opened:
        if viol:
            break
        p = f.built[0] if f.built else None
        qs = [x for x in ob.protocols
              if p is not None and x.made and x.scid == p.scid]
        if name in declared:
            if p is None or not p.made:
                V("C13.e2e_never_connected", "a subchannel opened by one side "
                  "appears on the other side", "connect(%r) never completed" %
                  (name,))
            elif p.lost:
                V("C13.declared_refused", "a subchannel opened under a name "
                  "the peer declared as expected appears on the other side "
                  "(at once, or when a listener is registered later)",
                  "the opener of %r was told connectionLost although nobody "
                  "closed it (opens %r)" % (name, [n for n, _ in opened]))
            elif len(qs) != 1:
                V("C13.never_appeared" if not qs else "C13.appeared_twice",
                  "a subchannel opened by one side appears exactly once on "
                  "the other side", "%r (scid %s) appeared %d times on B "
                  "(opens %r, listeners %r)" %
                  (name, p.scid, len(qs), [n for n, _ in opened],
                   sorted(listening)))
            elif qs[0].name != name:
                V("C13.wrong_subprotocol", "the subchannel appears under the "
                  "requested subprotocol", "%r vs %r" % (qs[0].name, name))
            elif b"".join(qs[0].data) != b"".join(p.writes):
                V("C13.e2e_data_missing", "data written to the subchannel "
                  "reaches the peer", "%r: wrote %r, peer has %r" %
                  (name, p.writes, qs[0].data))
        else:
            if qs:
                V("C13.undeclared_accepted", "an OPEN for a subprotocol "
                  "outside the declared set is refused", "%r appeared on B" %
                  (name,))
            elif p is not None and p.made and not p.lost:
                V("C13.undeclared_not_refused", "an OPEN for a subprotocol "
                  "outside the set the application declared as expected is "
                  "refused by closing it rather than held open",
                  "the opener of %r never saw connectionLost" % (name,))
    sim.after_step = None
    for c in (a, b):
        c.do_close()
    sim.run(4000, until=lambda: a.is_closed and b.is_closed, max_time=200)
    w.finish()
    return ca.result(sim, w, viol[0] if viol else None, len(opened) >= 2,
                     seed, extra_sample={"e2e": True, "pool": list(pool),
                                         "expected": repr(exp_b),
                                         "order": order,
                                         "opens": [n for n, _ in opened]})


def run_one(seed, tape, opts):
    if opts.get("e2e"):
        return run_e2e(seed, tape, opts)
    POOL = tape.pick(POOLS, "pool")
    exp = {"A": tape.pick(EXPECTED, "expA"), "B": tape.pick(EXPECTED, "expB")}
    exp = {k: (None if v is None else tuple(POOL[i] for i in v))
           for k, v in exp.items()}
    half = bool(opts.get("half"))
    staged = bool(opts.get("staged"))
    pausing = not half and tape.choose(2, "pausing") == 0
    w = cc.setup(tape, dict(opts, staged=staged), relay_ok=False, ping=60.0,
                 expected=(exp["A"], exp["B"]))
    sim = w.sim
    if not half and tape.choose(2, "greeter") == 0:
        cc.install_greeter(w, tape)
        # ... some of them throttle from inside dataReceived (more DATA and
        # the peer's CLOSE may sit in the same read)
        # (switched off by default again: see DESIGN section 9, open question
        # Q1 - with it, VERIF_SEED=1 run 1717 ends with the Follower connected
        # and the Leader not, which is not triaged yet)
        w.reactive_pause = pausing and bool(opts.get("reactive_pause"))
    sim.allow_advance = False     # nothing here depends on deadlines
    faults = cc.L2Faults(w, tape, tape.choose(5 if staged else 3, "fb"))
    if pausing:
        faults.budget = max(faults.budget, 2)
    faults.candidate_cuts = False
    cls = HalfRec if half else RecProtocol
    scripts = {}
    listens = {}
    for s in w.sides:
        mine = exp[s.name]
        lnames = [n for n in POOL if (mine is None and tape.choose(3, "ln"))
                  or (mine is not None and n in mine and tape.choose(4, "ln2"))]
        listens[s.name] = lnames
        ops = []
        big = opts.get("_tier") == "thorough"
        nsub = tape.choose(7 if big else 4, "nsub")
        if opts.get("burst") and s is w.sides[0]:
            nsub = 51 + tape.choose(30, "burst_n")
            bname = tape.pick(POOL, "burst_name")
            for i in range(nsub):
                ops.append(("open", bname))
            nsub = 0
        for i in range(nsub):
            ops.append(("open", tape.pick(POOL, "oname")))
        for j in range(tape.choose(30 if big else 10, "nops")):
            k = tape.choose(10, "opk")
            if k < 4:
                ops.append(("write", tape.choose(3, "wh"),
                            tape.blob(tape.choose(40, "wl"), j)))
            elif k < 6:
                ops.append(("awrite", tape.choose(3, "ah"),
                            tape.blob(tape.choose(40, "al"), 30 + j)))
            elif k < 8:
                ops.append(("close", tape.choose(3, "ch")))
            else:
                ops.append(("aclose", tape.choose(3, "ach")))
            if pausing and tape.choose(2, "pz") == 0:
                # slow applications: pause a subchannel for a while (it is
                # resumed later, or closed while paused)
                ops.append((tape.pick(("pause", "apause", "pause", "apause",
                                       "resume", "aresume"), "pzk"),
                            tape.choose(3, "pzh")))
        scripts[s.name] = interleave(tape, ops, [("listen", n) for n in lnames])
        if pausing:
            scripts[s.name].append(("resume_all",))
    wl = cc.Workload(w, tape, max_subs=0, max_ops=0, names=())
    wl.scripts = scripts
    started = set()

    def run_op(side, op):
        kind = op[0]
        if kind == "listen":
            side.listen(op[1], cls)
        elif kind == "open":
            wl.handles[side.name].append(side.connect(op[1], cls))
        else:
            if half and kind in ("close", "aclose"):
                _half_close(wl, side, op)
            else:
                wl_run(side, op)
    if opts.get("burst"):
        # the peer registers its listeners only once the whole burst has been
        # issued (an application that listens after when_dilated / late)
        opener, peer_side = w.sides[0], w.sides[1]
        nburst = sum(1 for o in scripts[opener.name] if o[0] == "open")
        orig_enabled = wl._enabled

        def enabled(side, op):
            if side is peer_side and op[0] == "listen":
                issued = sum(1 for o in scripts[opener.name][:wl.pc[
                    opener.name]] if o[0] == "open")
                if issued < nburst:
                    return False
            return orig_enabled(side, op)
        wl._enabled = enabled
    wl_run = wl._run
    wl._run = lambda side, op: run_op(side, op) \
        if op[0] in ("listen", "open", "close", "aclose") else wl_run(side, op)

    def extra():
        evs = wl.app_events()
        for s in w.sides:
            if s.name not in started:
                evs.append(("start:" + s.name,
                            lambda s=s: (started.add(s.name), s.start(w.key))))
        return evs
    w.extra_app_events = extra
    sim.fault_events = faults.events
    viol = []
    late_listen = [0]

    def V(key, clause, detail):
        if not viol:
            viol.append({"key": key, "clause": clause, "detail": detail})

    def on_sub_event(side, p, kind, data):
        if viol:
            return
        if kind == "made" and p.made > 1:
            V("C13.made_twice", "a subchannel appears exactly once",
              "%s scid %s connectionMade %d times" % (side.name, p.scid,
                                                      p.made))
        if kind == "lost":
            if p.lost > 1:
                V("C13.lost_twice", "each side sees connectionLost exactly "
                  "once", "%s scid %s lost %d times" % (side.name, p.scid,
                                                        p.lost))
                return
            other = _counterpart(w, side, p)
            if other is not None and p.data != other.writes:
                V("C13.data_after_close_lost", "data written before a close "
                  "is delivered before the peer sees connectionLost",
                  "%s scid %s: connectionLost after %d of %d writes" %
                  (side.name, p.scid, len(p.data), len(other.writes)))
        if kind == "data" and p.lost:
            V("C13.data_after_lost", "nothing is received after "
              "connectionLost", "%s scid %s" % (side.name, p.scid))
    w.on_sub_event = on_sub_event

    def complete():
        if not wl.done() or len(started) < 2:
            return False
        for s in w.sides:
            for rec in s.connect_results:
                if rec[1] == "pending":
                    return False
        if not w.both_connected():
            return False
        cur = w.current_link(w.A)
        if any(len(e.inflight) or len(e.sendbuf) for e in cur.ends):
            return False
        for s in w.sides:
            for p in s.protocols:
                other = _counterpart(w, s, p)
                if other is not None and other.data != p.writes:
                    return False
        return True
    sim.run(6000, until=lambda: bool(viol) or complete())
    faults.heal()
    # from here on the applications keep up: whatever they paused is resumed
    w.reactive_pause = False
    wl.resume_all()
    r = sim.run(10000, until=lambda: bool(viol) or complete(), max_time=600)
    sim.run(300, max_time=5)
    w.finish()
    # end-state checks
    scids = {}
    undeclared = 0
    if not viol and r == "until":
        for s in w.sides:
            for rec in s.connect_results:
                if rec[1] == "failed":
                    V("C13.connect_failed.%s" % rec[2].__name__, "a subchannel "
                      "opened by one side appears exactly once on the other "
                      "side", "%s: connect(%r) failed with %s" %
                      (s.name, rec[0], rec[2].__name__))
    if not viol and r == "until":
        for s in w.sides:
            peer = w.peer_of(s)
            for p in s.opened:
                if p.scid in scids:
                    V("C13.scid_reused", "the two sides never allocate the "
                      "same subchannel id", "scid %d used by %s and %s" %
                      (p.scid, scids[p.scid], s.name))
                scids[p.scid] = s.name
                acc = [q for q in peer.protocols if q.role == "acceptor" and
                       q.scid == p.scid]
                pe = exp[peer.name]
                listening = p.name in listens[peer.name]
                if len(acc) > 1:
                    V("C13.appeared_twice", "a subchannel opened by one side "
                      "appears exactly once on the other side",
                      "scid %d built %d protocols" % (p.scid, len(acc)))
                for q in acc:
                    if q.name != p.name or \
                            getattr(q.addr, "subprotocol", None) != p.name:
                        V("C13.wrong_subprotocol", "the subchannel appears "
                          "under the requested subprotocol", "%r vs %r" %
                          (p.name, q.name))
                if listening and not acc:
                    V("C13.never_appeared", "a subchannel opened by one side "
                      "appears on the other side (at once if a listener "
                      "exists, or when one is registered later)",
                      "scid %d name %s: peer listens but nothing was built" %
                      (p.scid, p.name))
                if pe is not None and p.name not in pe and not listening:
                    undeclared += 1
                    if acc:
                        V("C13.undeclared_accepted", "an OPEN outside the "
                          "declared set is refused", "scid %d name %s built" %
                          (p.scid, p.name))
                    elif not (p.lost or getattr(p, "read_lost", 0)):
                        V("C13.undeclared_not_refused", "an OPEN for a "
                          "subprotocol outside the set the application "
                          "declared as expected is refused by closing it "
                          "rather than held open",
                          "%s opened %r, peer expected %r: opener never saw "
                          "connectionLost" % (s.name, p.name, pe))
        for s in w.sides:
            for p in s.protocols:
                for err, n in p.write_errors:
                    if err == "no-error":
                        V("C13.write_after_close_ok", "writing after close "
                          "gets an error", "%s scid %s: write of %d bytes "
                          "after close did not raise" % (s.name, p.scid, n))
                    elif err.startswith("UNEXPECTED"):
                        V("C13.write_raised", "write on an open subchannel "
                          "works", "%s scid %s: %s" % (s.name, p.scid, err))
                if p.after_lost:
                    V("C13.data_after_lost", "nothing is received after "
                      "connectionLost", "%s scid %s" % (s.name, p.scid))
                other = _counterpart(w, s, p)
                if other is not None and (p.closed_local or
                                          other.closed_local):
                    if half:
                        _half_checks(V, s, p, other)
                    elif not (p.lost == 1 and other.lost == 1):
                        V("C13.close_incomplete", "after a close each side "
                          "sees connectionLost exactly once",
                          "%s scid %s: lost=%d peer lost=%d" %
                          (s.name, p.scid, p.lost, other.lost))
    elif not viol:
        sim.note("settle_incomplete")
        stuck = []
        for s in w.sides:
            for p in s.protocols:
                other = _counterpart(w, s, p)
                if other is not None and other.data != p.writes:
                    stuck.append("%s scid %s: peer got %d of %d writes" %
                                 (s.name, p.scid, len(other.data),
                                  len(p.writes)))
            for rec in s.connect_results:
                if rec[1] == "pending":
                    stuck.append("%s: connect(%r) still pending" %
                                 (s.name, rec[0]))
        V("C13.liveness", "a subchannel opened by one side appears on the "
          "other side; data written before a close is delivered (once faults "
          "have stopped and every application has resumed reading)",
          "not settled %s after the last fault (10000 events / 600 s): "
          "connected=%s, read-paused ends %s; %s; managers %s" %
          (r, w.both_connected(),
           [e.serial for l in sim.net.links for e in l.ends
            if e.alive and e.read_paused], "; ".join(stuck[:4]),
           ["%s:%s conn=%s gen=%s timers=%d" % (
               s_.name, s_.role, s_.m._connection is not None,
               s_.m._next_dilation_generation,
               len(sim.reactor.getDelayedCalls())) for s_ in w.sides]))
    for etype, text, why in w.log.errors:
        sim.note("logged." + etype)
    closed_any = any(p.lost for s in w.sides for p in s.protocols)
    nontrivial = closed_any or undeclared > 0
    if undeclared:
        sim.note("probe.undeclared_open", undeclared)
    return {"violation": viol[0] if viol else None, "nontrivial": nontrivial,
            "digest": sim.hexdigest(), "trace": sim.trace,
            "stats": {"steps": sim.steps, "sim_s": sim.now() - 1000.0,
                      "notes": sim.notes},
            "sample": {"seed": seed, "expected": {k: v for k, v in exp.items()},
                       "listens": listens, "half_closeable": half,
                       "scripts": {n: [[o[0]] + [x if not isinstance(x, bytes)
                                                 else "<%d B>" % len(x)
                                                 for x in o[1:]]
                                       for o in scripts[n]][:14]
                                   for n in ("A", "B")},
                       "faults": faults.fired[:4]}}


def _counterpart(w, side, p):
    peer = w.peer_of(side)
    want = "acceptor" if p.role == "opener" else "opener"
    for q in peer.protocols:
        if q.role == want and q.scid == p.scid and q.made:
            return q
    return None


def _half_close(wl, side, op):
    kind = op[0]
    if kind == "close":
        h = wl.handles[side.name]
        if not h:
            return
        rec = h[op[1] % len(h)]
        if rec[1] != "ok":
            return
        p = rec[2]
    else:
        acc = wl._accepted(side)
        if not acc:
            return
        p = acc[op[1] % len(acc)]
    try:
        p.transport.loseWriteConnection()
        p.closed_local = True
    except Exception as e:
        p.close_errors = getattr(p, "close_errors", []) + [type(e).__name__]


def _half_checks(V, s, p, other):
    for x in (p, other):
        if getattr(x, "read_lost", 0) > 1 or getattr(x, "write_lost", 0) > 1:
            V("C13.half.twice", "readConnectionLost/writeConnectionLost at "
              "most once each", "scid %s: read_lost=%d write_lost=%d" %
              (x.scid, x.read_lost, x.write_lost))
        if x.lost > 1:
            V("C13.lost_twice", "each side sees connectionLost exactly once",
              "scid %s lost %d" % (x.scid, x.lost))
    if p.closed_local and other.closed_local:
        for x in (p, other):
            if x.lost != 1:
                V("C13.half.no_connectionLost", "each side sees "
                  "connectionLost exactly once (half-closeable protocol, both "
                  "directions closed)",
                  "scid %s: read_lost=%d write_lost=%d connectionLost=%d" %
                  (x.scid, x.read_lost, x.write_lost, x.lost))


if __name__ == "__main__":
    import sys
    sys.exit(runner.main(sys.modules[__name__]))
