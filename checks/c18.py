"""C18 - application events arrive once each and in causal order."""
from simlib import boot  # noqa: F401
from simlib import runner
from checks import common_a as ca
from wormhole.errors import WormholeError

PROP = "C18"
LEVEL = "exploration"
QUICK_S = 40
THOROUGH_S = 900
TECHNIQUE = ("deterministic simulation: seeded schedules + reconnect/dup/"
             "reorder faults; event-order reference automaton checked after "
             "every event, get_*() Deferred accounting at the end")
RULE = ("One evaluation = one seeded two-client execution (Deferred and "
        "delegate API mixed; the delegate counts every callback so duplicates "
        "cannot hide) with get_*() calls inserted at arbitrary script "
        "positions incl. after close, connection faults, and - in the "
        "'unordered' configurations - duplicated/reordered `message` "
        "delivery; in 3 of 8 configurations a planned uplink loss (server "
        "stops reading one client's connection at a drawn event, the "
        "connection dies at a later drawn event, in-flight messages lost). "
        "Non-trivial: both sides reached 'verifier' and (a fault "
        "fired or an extra get_*() was issued before its event). Distinct: "
        "event-log digests among non-trivial runs.")
RULE += (' The i-th message event must carry the i-th message the peer sent (prefix oracle).')
RULE += (' Observations (primary and extra get_*() Deferreds) are placed in one order: one of a later event never fires while one of an earlier event requested before it is still pending; some configurations use pipelined get_message() readers (1..3 outstanding; one configuration 11..25 with 20..40 messages each way).')
RULE += (' No value is handed over after the closed notification; a ninth configuration closes early (error verdicts) with get_*() calls around close().')
LEVEL_TEXT = ("Seeded exploration; per-side automaton code<key<verifier<"
              "(versions|message)*<closed with once-only counters, versions-"
              "before-messages only in order-preserving-server configurations; "
              "after settle every get_*() Deferred ever handed out must have "
              "fired, and those obtained after closed must have failed.")
LEVEL_NOTE = ("'Order-preserving server' = no dup/reorder fault layer and the "
              "real server's ORDER BY server_rx replay; websocket framing "
              "stubbed; SPAKE2 stand-in in 7/8 runs.")
ASSUMPTIONS = ["message-framed websocket stub, simulated TCP"]
COMPONENTS = {
    "real": ["wormhole client incl. observers/eventual queue", "Twisted "
             "ClientService", "wormhole_mailbox_server"],
    "stub": ["Autobahn", "TCP/DNS", "SPAKE2 (7/8 runs)"]}

GETS = ("welcome", "code", "key", "verifier", "versions", "message")


def configs(tier):
    out = []
    for i in range(8):
        out.append({"spake": "real" if i == 0 else "stub", "reentrant": i % 3 == 1,
                    "ordered": i % 2 == 0, "pipeline": i in (3, 6),
                    "reorder_heavy": i % 2 == 1,
                    "uplink_loss": i in (2, 4, 5),
                    "max_msgs": 4 if tier == "quick" else 8})
    out.append({"spake": "stub", "ordered": True, "early_close": True,
                "max_msgs": 3})
    # a consumer that keeps 11..25 get_message() Deferreds outstanding while
    # 20..40 messages arrive in bursts
    out.append({"spake": "stub", "ordered": True, "pipeline": "deep",
                "max_msgs": 40, "min_msgs": 20})
    return out


def run_one(seed, tape, opts):
    w, a, b = ca.build_pair(tape, opts, max_msgs=opts.get("max_msgs", 4),
                            lazy_ok=True)
    sim = w.sim
    ordered = opts.get("ordered", True)
    for c, peer in ((a, "B"), (b, "A")):
        if opts.get("early_close"):
            # closes without waiting for the conversation: mostly an error
            # verdict (lonely), with get_*() calls right around the close()
            c.script += [("wait_event_or_steps",
                          tape.pick(("welcome", "code", "key", "verifier"),
                                    "ecw"), tape.choose(80, "ecs")),
                         ("get", tape.pick(GETS, "ecg")),
                         ("close",)]
        elif c.lazy_messages:
            # never consumes messages by itself: leaves them queued at close
            c.script += [("wait_event", "verifier"),
                         ("wait_steps", tape.choose(60, "lazywait")),
                         ("close",)]
        else:
            c.script += [("wait_all_delivered", peer), ("close",)]
        if c.api == "deferred":
            gets = [("get", tape.pick(GETS, "getk"))
                    for _ in range(tape.choose(5, "ngets"))]
            c.script = ca.interleave(tape, c.script, gets)
            # some more after close() was called
            c.script += [("get", tape.pick(GETS, "getk2"))
                         for _ in range(tape.choose(3, "ngets2"))]
    kinds = ca.CONN_FAULTS if ordered else ca.CONN_FAULTS + ca.MSG_FAULTS
    ca.pick_faults(tape, w, kinds, 5)
    order = ca.EventOrderOracle([a, b], versions_first=ordered)
    prefix = ca.PrefixOracle(a, b)

    planned = None
    if opts.get("uplink_loss"):
        t1 = tape.choose(160, "ul_t1")
        planned = w.plan_uplink_loss(tape.pick((a, b), "ul_victim"), t1,
                                     t1 + 1 + tape.choose(160, "ul_t2"))

    def oracle():
        if planned is not None:
            planned()
        order.step()
        prefix.step()
    sim.after_step = oracle

    def done():
        return bool(order.violation or prefix.violation) or (
            a.is_closed and b.is_closed and w.scripts_done())
    sim.run(4000, until=done)
    w.heal()
    r = sim.run(8000, until=done, max_time=900)
    # late gets: after the closed notification has been seen
    late = []
    if not order.violation and not prefix.violation:
        for c in (a, b):
            if c.api == "deferred" and c.is_closed:
                for k in GETS:
                    w._extra_get(c, k)
                    late.append((c, c.extra_gets[-1]))
        sim.run(200, max_time=5)
    w.finish()
    v = order.violation
    if not v and w.observation_order_violation:
        who, later, earlier = w.observation_order_violation
        if earlier == "closed":
            v = {"key": "C18.observed_after_closed." + later,
                 "clause": "the events occur in the order code, unverified "
                           "key, verifier, versions and messages, with closed "
                           "last",
                 "detail": "%s: a get_%s() Deferred fired with its value "
                           "after the closed notification had been "
                           "delivered" % (who, later)}
    if not v and w.observation_order_violation and \
            w.observation_order_violation[2] != "closed":
        who, later, earlier = w.observation_order_violation
        v = {"key": "C18.observed_out_of_order.%s_before_%s" % (later, earlier),
             "clause": "the events occur in the order code, unverified key, "
                       "verifier, versions - whatever the timing of the "
                       "get_*() calls",
             "detail": "%s: a get_%s() Deferred fired while a get_%s() "
                       "Deferred requested before it was still pending" %
                       (who, later, earlier)}
    if not v and prefix.violation:
        # the i-th message event carries the i-th message the peer sent: a
        # message delivered twice (or another one in its place) is an event
        # occurring more than once
        v = dict(prefix.violation, key="C18.message_not_once",
                 clause="each application message is delivered at most once, "
                        "in the order sent")
    if not v and r == "until":
        for c in (a, b):
            for rec in c.extra_gets:
                kind, state, val, closed_at_call = rec
                if state == "pending":
                    v = {"key": "C18.get_hangs." + kind,
                         "clause": "after closed every outstanding and future "
                                   "get_* Deferred fires (value or failure)",
                         "detail": "%s: get_%s() never fired (issued %s "
                                   "closed)" % (c.name, kind, "after" if
                                                closed_at_call else "before")}
                    break
                if closed_at_call and state != "failed":
                    v = {"key": "C18.get_after_closed." + kind,
                         "clause": "get_* obtained after closed fails with an "
                                   "error",
                         "detail": "%s: get_%s() after closed -> %s %r" %
                                   (c.name, kind, state, val)}
                    break
                if closed_at_call and state == "failed" and not (
                        isinstance(val, type) and issubclass(val, Exception)):
                    v = {"key": "C18.get_after_closed_type." + kind,
                         "clause": "failure is an exception", "detail":
                         repr(val)}
                    break
            if v:
                break
    elif not v and r != "until":
        sim.note("settle_incomplete")
    if a.lazy_messages:
        sim.note("lazy_consumer_runs")
    fired = bool(w.faults_fired) or \
        sim.notes.get("fault.mbox_unordered_delivery", 0) > 0
    early_get = any(True for c in (a, b) for rec in c.extra_gets
                    if not rec[3])
    nontrivial = a.has("verifier") and b.has("verifier") and \
        (fired or early_get)
    return ca.result(sim, w, v, nontrivial, seed,
                     extra_sample={"ordered_server": ordered,
                                   "extra_gets": {c.name: [r[:2] for r in
                                                           c.extra_gets][:10]
                                                  for c in (a, b)}})


if __name__ == "__main__":
    import sys
    sys.exit(runner.main(sys.modules[__name__]))
