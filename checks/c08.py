"""C08 - close() completes once, with the right verdict, and frees server
resources."""
from simlib import boot  # noqa: F401
from simlib import runner
from checks import common_a as ca
from worlds.mailbox import MailboxWorld
from wormhole import errors as E

PROP = "C08"
LEVEL = "exploration"
QUICK_S = 45
THOROUGH_S = 900
TECHNIQUE = ("deterministic simulation: close()/error injected at every "
             "protocol point x connection-fault sequences; executable verdict "
             "reference model fed from the harness's own delivery log; server "
             "DB inspected at the closed notification")
RULE = ("One evaluation = one seeded execution of 1-3 real clients (same code, "
        "wrong code, welcome error, third participant, or nobody else) against "
        "the real mailbox server, close() placed at a tape-chosen script "
        "position (before the code, while allocating/claiming, after PAKE, "
        "after messages), connection faults (cut/half-open/restart/refuse/"
        "hang) around it, both API styles. Non-trivial: close() or a terminal "
        "error happened while the client had a claim or an open mailbox, or "
        "while disconnected, or a fault fired. Distinct: event-log digests "
        "among non-trivial runs.")
RULE += (' Fault kinds include stall and restart_unwelcome (server restarted with a welcome error).')
RULE += (' A ninth configuration takes the receiver of an interactive code entry offline after the claim; close() and the words happen while offline.')
LEVEL_TEXT = ("Seeded exploration. Reference model: the first terminal cause in "
              "the client's own processing order decides the verdict (welcome "
              "error, server error, undecryptable peer message, or close() -> "
              "happy iff code + peer PAKE + >=1 peer encrypted message were "
              "processed before). At the closed notification: exactly one "
              "notification, nothing after it, no claimed nameplate / opened "
              "mailbox row for this side in the server DB (for nameplates/"
              "mailboxes the client learned), last processed `close` carries "
              "the matching mood, client end of every server link is down, "
              "and no further connection attempt within 200 simulated s.")
LEVEL_NOTE = ("Verdicts through Boss.error (internal exceptions, failed "
              "initial connection) are outside this property; Byzantine "
              "content belongs to C02. Liveness bound after faults stop: 6000 "
              "events / 600 simulated seconds.")
ASSUMPTIONS = ["message-framed websocket stub, simulated TCP",
               "faults start after each client's first websocket open"]
COMPONENTS = {
    "real": ["wormhole client incl. Terminator/Nameplate/Mailbox/"
             "RendezvousConnector", "Twisted ClientService",
             "wormhole_mailbox_server handlers + SQLite tables"],
    "stub": ["Autobahn", "TCP/DNS", "SPAKE2 (7/8 runs)"]}

MOODS = {"happy": "happy", "LonelyError": "lonely",
         "WrongPasswordError": "scary", "ServerError": "errory",
         "WelcomeError": "unwelcome"}
VARIANTS = ("same", "same", "wrong", "welcome_error", "crowded", "solo",
            "same")


def configs(tier):
    return [{"spake": "real" if i == 0 else "stub", "reentrant": i % 3 == 1, "faults": i % 4 != 1,
             "dilate": i in (3, 6)} for i in range(8)] + \
        [{"spake": "stub", "faults": False, "offline_close": True},
         {"spake": "stub", "faults": True, "focus": "error_after_happy"}]


class Truth:
    """Harness-side ground truth for one client."""

    def __init__(self, c, codes_match):
        self.c = c
        self.codes_match = codes_match
        self.code_known = False
        self.pake = False
        self.nonpake = False
        self.judged = False
        self.happy = False
        self.expected = None
        self.cause_step = None
        self.nameplates = set()
        self.mailboxes = set()
        self.closing_state = None   # description of where close() hit
        self.close_refused = False  # server answered our `close` with error
        self.close_refused_why = None

    def cause(self, v, sim):
        if self.expected is None:
            self.expected = v
            self.cause_step = sim.steps
            c = self.c
            self.closing_state = (self.code_known, self.pake, self.nonpake,
                                  bool(self.nameplates), bool(self.mailboxes))
            sim.ev("truth", c.name, v)

    def evaluate(self, sim):
        if self.code_known and self.pake and self.nonpake and not self.judged:
            self.judged = True
            if self.codes_match:
                self.happy = True
            else:
                self.cause("WrongPasswordError", sim)


def run_one(seed, tape, opts):
    variant = tape.pick(VARIANTS, "variant")
    offline_close = bool(opts.get("offline_close"))
    if offline_close:
        # the receiver of an interactive code entry goes offline after the
        # nameplate was claimed, the wormhole is closed (by the application or
        # because the user gave up) while offline, the words are still
        # entered, the network comes back
        variant = tape.pick(("same", "same", "wrong"), "variant_oc")
    focus = opts.get("focus")
    if focus == "error_after_happy":
        # a third party knocks while A and B are connecting (refused, but the
        # server remembers it), A and B reach the happy state and linger;
        # connections drop and come back: the re-sent `open` is answered with
        # an error long after the key was confirmed
        variant = "crowded"
    welcome = {"error": "sim says no"} if variant == "welcome_error" else \
        {"motd": "hello"}
    # (late_words: the user of an interactive prompt may finish typing the
    # words after close() was called)
    w = MailboxWorld(tape, dict(opts, late_words=True), welcome=welcome)
    sim = w.sim
    apis = ("deferred", "delegate")
    # in 1/4 of the runs the wormholes are created with Dilation and the
    # scripts call dilate() somewhere: close() then also has to shut the
    # Dilation layer down, whatever state that is in
    dil = {"dilation": True} if opts.get("dilate") else {}
    if dil:
        sim.no_advance_while_connecting = True
    a = w.add_client("A", api=tape.pick(apis, "api_a"), **dil)
    clients = [a]
    b = c3 = None
    if variant != "solo":
        b = w.add_client("B", api=tape.pick(apis, "api_b"), **dil)
        clients.append(b)
    if variant == "crowded":
        c3 = w.add_client("C", api=tape.pick(apis, "api_c"))
        clients.append(c3)
    mode = tape.pick(("alloc_set", "set_set", "alloc_input"), "codemode")
    if offline_close:
        mode = "alloc_input"
    if focus == "error_after_happy":
        mode = "set_set"
    w.mode = variant + "/" + mode
    code = ca.fixed_code(tape)
    if mode == "set_set":
        code_a, code_b = [("set_code", code)], [("set_code", code)]
        if variant == "wrong":
            code_b = [("set_code", code + "x")]
    else:
        code_a = ca.code_ops(tape, mode, True, "B")
        code_b = ca.code_ops(tape, mode, False, "A")
        if variant == "wrong":
            # same nameplate, different words
            if mode == "alloc_set":
                code_b = [("set_code_wrong_from", "A")]
            else:
                code_b = code_b[:-1] + [("choose_wrong_words_from", "A")]
    truths = {}
    for c in clients:
        truths[c.name] = Truth(c, codes_match=(variant != "wrong"))
    scripts = {"A": code_a, "B": code_b, "C": [("set_code_from", "A")]}
    for c in clients:
        base = list(scripts[c.name])
        n = tape.choose(4, "nsend")
        base = ca.interleave(tape, base,
                             [("send", ca.gen_payload(tape, i, c.name, False))
                              for i in range(n)])
        if dil and c.name != "C" and tape.choose(4, "dil?"):
            base = ca.interleave(tape, base, [
                ("dilate", {"no_listen": tape.choose(2, "dnl") == 0})])
        style = tape.choose(4, "closestyle")
        peer = "B" if c.name == "A" else "A"
        if style == 0 and variant == "same" and c.name != "C":
            base += [("wait_all_delivered", peer), ("close",)]
        elif style in (0, 1):
            # close once some protocol milestone was reached (or after a while)
            ev = tape.pick(("code", "key", "verifier", "versions", "message",
                            "closed"), "waitev")
            base += [("wait_event_or_steps", ev, 100 + tape.choose(500, "ws")),
                     ("close",)]
        else:
            cut = tape.choose(len(base) + 1, "closepos")
            tail = [op for op in base[cut:] if op[0] == "send"]
            words = [op for op in base[cut:] if op[0] == "choose_words_from"]
            base = base[:cut]
            if style == 3 and base:
                base.append(("wait_steps", tape.choose(40, "ws2")))
            base.append(("close",))
            if words and tape.choose(2, "late_words") == 0:
                base.append(("wait_steps", tape.choose(30, "ws3")))
                base += words[:1]
            base += tail[:1]
        if tape.choose(3, "again") == 0:
            base.append(("close",))
        if offline_close and c.name == "B":
            words = [op for op in scripts["B"]
                     if op[0] in ("choose_words_from",
                                  "choose_wrong_words_from")]
            base = [op for op in scripts["B"] if op not in words]
            base += [("wait_steps", 5 + tape.choose(80, "oc_w1")),
                     ("offline",)]
            tail = [("close",), ("wait_steps", tape.choose(10, "oc_w2"))] + \
                words
            if tape.choose(4, "oc_order") == 0:
                tail = words + [("close",)]
            base += tail + [("wait_steps", tape.choose(30, "oc_w3")),
                            ("online",)]
        if focus == "error_after_happy":
            if c.name == "C":
                base = [("wait_steps", 2 + tape.choose(30, "c_late")),
                        ("set_code_from", "A"),
                        ("wait_event_or_steps", "closed", 200), ("close",)]
            else:
                base = list(scripts[c.name]) + \
                    [("send", ca.gen_payload(tape, 0, c.name, False)),
                     ("wait_event_or_steps", "message", 400),
                     ("wait_steps", 10 + tape.choose(60, "linger_f0"))]
                if tape.choose(3, "bounce") != 0:
                    # the connection drops and comes back once the session
                    # is established
                    base += [("offline",),
                             ("wait_steps", 3 + tape.choose(30, "off_f")),
                             ("online",)]
                base += [("wait_steps", 100 + tape.choose(300, "linger_f")),
                         ("close",)]
        c.script = base
    def go_offline(c):
        opened = False
        for link in sim.net.links:
            if link.owner is c:
                p = link.ends[0].protocol
                p = getattr(p, "_wrappedProtocol", p)
                opened = opened or getattr(p, "opened", False)
        if not opened:
            # (losing the very first connection attempt is a terminal error
            # of its own and not what this configuration is about)
            return
        sim.ev("offline", c.name)
        sim.note("fault.client_offline")
        sim.net.port_mode[w.server.port] = "refuse"
        for link in sim.net.links:
            if link.mode == "message" and link.up and link.owner is c:
                sim.net.cut(link)

    def go_online(c):
        sim.ev("online", c.name)
        sim.net.port_mode[w.server.port] = "ok"
    w.extra_ops = {"offline": go_offline, "online": go_online}
    if focus == "error_after_happy":
        ca.pick_faults(tape, w, ("cut", "server_restart"), 1)
    elif opts.get("faults", True):
        ca.pick_faults(tape, w, ca.CONN_FAULTS + (
            ("restart_unwelcome",) if tape.choose(3, "unw") == 0 else ()), 5)
    order = ca.EventOrderOracle(clients, versions_first=True)
    viol = []
    closed_checks = {}

    def V(key, clause, detail):
        if not viol:
            viol.append({"key": key, "clause": clause, "detail": detail})

    # -- ground truth taps --------------------------------------------------
    def on_server_msg(c, msg):
        t = truths[c.name]
        ty = msg.get("type")
        if ty == "welcome":
            if "error" in msg.get("welcome", {}):
                t.cause("WelcomeError", sim)
        elif ty == "error":
            t.cause("ServerError", sim)
            if (msg.get("orig") or {}).get("type") == "close":
                t.close_refused = True
                t.close_refused_why = msg.get("error")
                sim.note("probe.server_refused_close")
        elif ty == "allocated":
            if t.expected is None and not t.code_known:
                t.code_known = True
                t.nameplates.add(msg["nameplate"])
                t.evaluate(sim)
        elif ty == "claimed":
            t.mailboxes.add(msg["mailbox"])
        elif ty == "message" and msg.get("side") != c.side and \
                t.expected is None:
            if msg.get("phase") == "pake":
                t.pake = True
            else:
                t.nonpake = True
            t.evaluate(sim)
    w.on_server_msg = on_server_msg

    def before_op(c, op):
        # close(): the delegate API may notify synchronously
        if op[0] == "close":
            t = truths[c.name]
            t.cause("happy" if t.happy else "LonelyError", sim)
    w.before_op = before_op

    def on_op(c, op, ok):
        t = truths[c.name]
        kind = op[0]
        if ok and kind in ("set_code", "set_code_from",
                             "set_code_wrong_from"):
            if t.expected is None:
                t.code_known = True
                t.nameplates.add(c.last_code.split("-")[0])
                t.evaluate(sim)
        elif ok and kind in ("choose_nameplate_from",):
            if t.expected is None:
                t.nameplates.add(c.last_nameplate)
        elif ok and kind in ("choose_words_from", "choose_wrong_words_from"):
            if t.expected is None:
                t.code_known = True
                t.evaluate(sim)
    w.on_op = on_op

    def on_app_event(c, kind, value):
        if kind != "closed" or c.name in closed_checks:
            return
        t = truths[c.name]
        closed_checks[c.name] = sim.steps
        # verdict
        got = value if isinstance(value, str) else type(value).__name__
        if t.expected is None:
            V("C08.closed_without_cause", "closed only after close() or a "
              "terminal error", "%s closed with %r but nothing caused it" %
              (c.name, value))
            return
        if got != t.expected:
            V("C08.verdict.%s_vs_%s" % (t.expected, got),
              "verdict: happy iff a valid peer message was seen, LonelyError "
              "if none, WrongPasswordError / ServerError / WelcomeError "
              "after the respective cause (first cause wins)",
              "%s: expected %s, got %r (state at cause: code,pake,msg,np,mbox"
              "=%r)" % (c.name, t.expected, value, t.closing_state))
            return
        if not isinstance(value, str) and not isinstance(value, E.WormholeError):
            V("C08.verdict_type", "verdict is 'happy' or a WormholeError",
              repr(value))
            return
        # server-side resources
        srv = w.server
        claimed = [n for n in srv.claimed_nameplates(c.side)
                   if n in t.nameplates]
        if claimed:
            V("C08.nameplate_not_released", "by the closed notification the "
              "client has released its nameplate claim",
              "%s still claims %r on the server" % (c.name, claimed))
            return
        cmds = [m for (_, side, m) in srv.command_log if side == c.side]
        i_opened = set(m.get("mailbox") for m in cmds if m["type"] == "open")
        still = srv.opened_mailboxes(c.side)
        opened = [m for m in still if m in i_opened]
        if [m for m in still if m not in i_opened]:
            # the server's `claim` implicitly opens the mailbox for the side;
            # a client that closes before it processed `claimed` never sent
            # `open` and never closes it (left to the server's pruning). Not
            # gated: the client did not open that mailbox. Counted as a probe.
            sim.note("probe.claim_only_mailbox_left_to_pruning")
        if opened and not (t.close_refused and
                           t.close_refused_why == "crowded"):
            # (a `close` refused as crowded concerns a mailbox this side was
            # never admitted to; any other refusal leaves our side open)
            V("C08.mailbox_not_closed", "by the closed notification the client"
              " has closed its mailbox", "%s still has %r open on the server"
              "%s" % (c.name, opened, "; the server refused its close: %r" %
                      t.close_refused_why if t.close_refused else ""))
            return
        opens = [m for m in cmds if m["type"] == "open"]
        closes = [m for m in cmds if m["type"] == "close"]
        if opens:
            if not closes:
                V("C08.no_close_command", "mailbox closed with the matching "
                  "mood", "%s opened a mailbox but the server never processed "
                  "a close" % c.name)
                return
            mood = closes[-1].get("mood")
            if mood != MOODS[t.expected]:
                V("C08.mood.%s_vs_%s" % (MOODS[t.expected], mood),
                  "mailbox closed with the mood matching the verdict",
                  "%s: verdict %s but last close mood %r" %
                  (c.name, t.expected, mood))
                return
        for link in sim.net.links:
            if link.owner is c and link.ends[0].alive and link.ends[0].made:
                V("C08.connection_not_dropped", "by the closed notification "
                  "the client has dropped the server connection",
                  "%s: link %d still up on the client side" %
                  (c.name, link.serial))
                return
    w.on_app_event = on_app_event

    def oracle():
        order.step()
    sim.after_step = oracle

    def done():
        return bool(viol or order.violation) or \
            (all(c.is_closed for c in clients) and w.scripts_done())
    sim.run(4000, until=done)
    w.heal()
    steps0, t0 = sim.steps, sim.now()
    r = sim.run(6000, until=done, max_time=600)
    if not (viol or order.violation) and r == "until":
        # nothing more may happen: no reconnects, no late notifications
        nlinks = len(sim.net.links)
        sim.run(3000, max_time=200)
        order.step()
        if len(sim.net.links) != nlinks or sim.net.attempts:
            V("C08.reconnect_after_closed", "after closed the client makes no "
              "further connection attempts", "links %d -> %d, pending "
              "attempts %d" % (nlinks, len(sim.net.links),
                               len(sim.net.attempts)))
        for c in clients:
            if len(c.closed_results) > 1:
                first = c.closed_results[0]
                for later in c.closed_results[1:]:
                    same = (later == first) if isinstance(first, str) else \
                        (type(later) is type(first))
                    if not same:
                        V("C08.close_twice_differs", "later close() calls "
                          "give the same outcome", "%s: %r" %
                          (c.name, c.closed_results))
                if c.api == "delegate":
                    V("C08.closed_twice", "exactly one closed notification",
                      "%s (delegate) got %d notifications" %
                      (c.name, len(c.closed_results)))
            if c.api_errors:
                sim.note("probe.api_exception_(judged_by_C14)")
    w.finish()
    v = order.violation or (viol[0] if viol else None)
    if v and v["key"].startswith("C18"):
        v = dict(v, key="C08." + v["key"][4:])
    if not v and r != "until":
        pend = [c.name for c in clients if not c.is_closed]
        sub = ""
        if any(truths[n].close_refused for n in pend):
            sub = ".server_refused_close"
        v = {"key": "C08.liveness" + sub,
             "clause": "close() leads to a closed notification once "
                       "connectivity allows",
             "detail": "after heal: %s after %d events / %.0f sim s; not "
                       "closed: %r; scripts done=%s" %
                       (r, sim.steps - steps0, sim.now() - t0, pend,
                        w.scripts_done())}
    nontrivial = any(
        t.closing_state is not None and (t.closing_state[3] or
                                         t.closing_state[4])
        for t in truths.values()) or bool(w.faults_fired)
    verdicts = sorted(set(t.expected for t in truths.values() if t.expected))
    for x in verdicts:
        sim.note("verdict." + x)
    for t in truths.values():
        if t.closing_state is not None:
            sim.note("close_state.code%d_pake%d_msg%d_np%d_mbox%d" %
                     tuple(int(x) for x in t.closing_state))
    return ca.result(sim, w, v, nontrivial, seed,
                     extra_sample={"variant": variant,
                                   "expected": {n: t.expected for n, t in
                                                truths.items()}})


if __name__ == "__main__":
    import sys
    sys.exit(runner.main(sys.modules[__name__]))
