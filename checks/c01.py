"""C01 - the session key is bound to the wormhole code: agree iff codes match."""
import json
import unicodedata

from simlib import boot  # noqa: F401
from simlib import runner
from checks import common_a as ca
from worlds.mailbox import MailboxWorld
from wormhole import errors as E

PROP = "C01"
LEVEL = "exploration"
QUICK_S = 45
THOROUGH_S = 900
TECHNIQUE = ("deterministic simulation with the real SPAKE2: generated code "
             "pairs (equal / NFC-equivalent / near-miss) x application ids x "
             "arrival orders incl. PAKE-before-code; agreement oracle computed "
             "by the harness with unicodedata")
RULE = ("One evaluation = one seeded execution of two real clients (real "
        "spake2) whose codes are related by a tape-chosen relation: identical, "
        "NFC-equivalent spelling (composed/decomposed accents, Hangul, "
        "combining-mark order), one character changed / inserted / deleted, "
        "case changed, nameplate changed, compatibility-only equivalent "
        "(ligature, full-width); application ids equal or different (the "
        "fault layer rewrites `bind` so both still share one mailbox); "
        "set_code and input_code paths (the latter lets the peer's PAKE "
        "arrive before the code), sends before/after the key, dup/reorder/"
        "reconnect faults. Non-trivial: both PAKE messages were delivered. "
        "Distinct: event-log digests among non-trivial runs.")
RULE += (' Application messages include the empty string, a NUL byte and 3 kB blobs.')
RULE += (' One relation appends a line ending or another blank other than the plain space; base codes may end in such a blank themselves (entered through set_code on one side and through the input helper on the other).')
RULE += (' One relation gives the two sides application ids that differ only in Unicode normalisation form (no bind rewriting: the server files them apart).')
RULE += (' One relation spells the nameplate number differently (leading zero, digits of another script).')
RULE += (' Codes also come with a doubled hyphen, a trailing hyphen or one word only; one relation adds a hyphen.')
LEVEL_TEXT = ("Seeded exploration of inputs x schedules. match := NFC(codeA)=="
              "NFC(codeB) and appidA==appidB (computed independently of the "
              "code under test). match => equal verifiers, equal keys, "
              "derive_key agrees across sides for sampled (purpose, n) and "
              "differs between distinct purposes, and (liveness, faults "
              "stopped) both sides do get a verifier. no match => no "
              "verifier/versions/message event ever, and every side that "
              "processed a peer encrypted message ends with "
              "WrongPasswordError.")
LEVEL_NOTE = ("Real spake2 and PyNaCl; websocket framing stubbed. derive_key "
              "'different purposes' are compared only for n>=8 and purposes "
              "that differ after NFC.")
ASSUMPTIONS = ["message-framed websocket stub, simulated TCP"]
COMPONENTS = {"real": ["wormhole client", "spake2 0.9 (always)", "PyNaCl",
                       "HKDF (cryptography)", "wormhole_mailbox_server"],
              "stub": ["Autobahn", "TCP/DNS"]}

WORDS = ("café", "naïve", "가나", "q̣̇x", "alpha",
         "Beta", "ộk", "zulu", "Ångström")
PURPOSES = ("p1", "p2", "transit", "café", "café", "x/y z", "")
RELATIONS = ("same", "same", "nfd", "nfd_partial", "mark_order", "char",
             "insert", "delete", "case", "nameplate", "compat", "appid",
             "nfd+appid", "hyphen", "np_spelling", "trailing_ws",
             "appid_spelling")


WS_TAILS = ("\n", "\r\n", "\t", "\x0b", "\u00a0", "\u2028", "\n\n")


def relate(tape, code, relation):
    np, rest = code.split("-", 1)
    if relation in ("same", "appid", "appid_spelling"):
        return code
    if relation in ("nfd", "nfd+appid"):
        return np + "-" + unicodedata.normalize("NFD", rest)
    if relation == "nfd_partial":
        i = tape.choose(len(rest) + 1, "cutpos")
        return np + "-" + unicodedata.normalize("NFD", rest[:i]) + \
            unicodedata.normalize("NFC", rest[i:])
    if relation == "mark_order":
        # swap adjacent combining marks of different classes (canonically eq.)
        d = list(unicodedata.normalize("NFD", rest))
        for i in range(len(d) - 1):
            a, b = unicodedata.combining(d[i]), unicodedata.combining(d[i + 1])
            if a and b and a != b:
                d[i], d[i + 1] = d[i + 1], d[i]
                break
        return np + "-" + "".join(d)
    if relation == "char":
        i = tape.choose(len(rest), "cpos")
        c = rest[i]
        repl = "x" if c != "x" else "y"
        if c == "-":
            repl = "_"
        return np + "-" + rest[:i] + repl + rest[i + 1:]
    if relation == "insert":
        i = tape.choose(len(rest) + 1, "ipos")
        return np + "-" + rest[:i] + "z" + rest[i:]
    if relation == "delete":
        i = tape.choose(len(rest), "dpos")
        return np + "-" + rest[:i] + rest[i + 1:]
    if relation == "hyphen":
        # one more hyphen: doubled between the words, or trailing
        i = tape.pick([k for k, ch in enumerate(rest) if ch == "-"] +
                      [len(rest)], "hpos")
        return np + "-" + rest[:i] + "-" + rest[i:]
    if relation == "case":
        sw = rest.swapcase()
        return np + "-" + sw
    if relation == "nameplate":
        return str(int(np) + 1) + "-" + rest
    if relation == "trailing_ws":
        # a line ending or other blank (not the plain space, which is
        # refused) behind the words: another code
        return code + tape.pick(WS_TAILS, "wstail")
    if relation == "np_spelling":
        # the same number spelled differently: a leading zero, or digits of
        # another script (validate_nameplate's \d accepts them). Different
        # codes all the same: no agreement
        if tape.choose(2, "nps") == 0:
            return "0" * (1 + tape.choose(2, "npz")) + np + "-" + rest
        zero = tape.pick((0x0660, 0xFF10, 0x0966), "npd")
        return "".join(chr(zero + int(ch)) for ch in np) + "-" + rest
    if relation == "compat":
        return np + "-" + rest.replace("fi", "ﬁ").replace(
            "a", "ａ", 1)
    raise ValueError(relation)


def configs(tier):
    # the ninth: different codes on one nameplate, a third party knocking
    # (crowded), connection losses only - the verdict must stay
    # WrongPasswordError whatever else the server says meanwhile
    return [{"spake": "real", "reorder_heavy": i % 2 == 1, "faults": i % 4 != 0}
            for i in range(8)] + \
        [{"spake": "real", "faults": True, "focus": "crowded_mismatch"},
         {"spake": "stub", "faults": True, "focus": "crowded_mismatch"}]


def _payload(tape, who, i):
    # application messages of any content: short, empty, binary, large
    k = tape.choose(6, "pl")
    if k == 0:
        return b""
    if k == 1:
        return b"\x00"
    if k == 2:
        return tape.blob(3000, 70 + i)
    return who + b"-%d" % i


def run_one(seed, tape, opts):
    w = MailboxWorld(tape, opts)
    sim = w.sim
    relation = tape.pick(RELATIONS, "relation")
    focus = opts.get("focus")
    if focus == "crowded_mismatch":
        relation = tape.pick(("char", "insert", "delete", "case"), "rel_f")
    base = "%d-%s-%s" % (1 + tape.choose(60, "np"), tape.pick(WORDS, "w1"),
                         tape.pick(WORDS + ("fig",), "w2"))
    shape = tape.choose(8, "shape")
    if shape == 0:
        base = base.replace("-", "--", 2).replace("--", "-", 1)  # N-w1--w2
    elif shape == 1:
        base = base + "-"                                        # trailing
    elif shape == 2:
        base = base.rsplit("-", 1)[0]                            # one word
    elif shape == 3:
        base = base + tape.pick(WS_TAILS, "wstail0")   # ends in a blank
    code_a = base
    code_b = relate(tape, base, relation)
    appid_a = "sim.example/app"
    appid_b = appid_a + ("2" if "appid" in relation else "")
    if relation == "appid_spelling":
        # two different application ids (different strings) that differ only
        # in Unicode normalisation form: each is filed by the server under
        # the string it bound with, so the two never meet
        appid_a = "caf\u00e9.example/\u00c5pp"
        appid_b = unicodedata.normalize("NFD", appid_a)
    match = (unicodedata.normalize("NFC", code_a) ==
             unicodedata.normalize("NFC", code_b)) and appid_a == appid_b
    same_mailbox = code_a.split("-")[0] == code_b.split("-")[0]
    apis = ("deferred", "delegate")
    a = w.add_client("A", appid=appid_a, api=tape.pick(apis, "api_a"),
                     versions={"who": "A"})
    b = w.add_client("B", appid=appid_b, api=tape.pick(apis, "api_b"),
                     versions={"who": "B"})
    if appid_a != appid_b and relation != "appid_spelling":
        # put both into the same server namespace although they bind (and
        # run SPAKE2) with different application ids
        def rewrite(end, m):
            if end.role == "s" and m[:1] == b"M" and b'"bind"' in m:
                d = json.loads(m[1:].decode())
                if d.get("type") == "bind":
                    d["appid"] = appid_a
                    return b"M" + json.dumps(d).encode()
            return m
        w.bind_rewrite = rewrite
        sim.on_link = lambda link: setattr(link, "tamper", rewrite)
    w.mode = "%s%s" % (relation, "" if match else "/MISMATCH")
    # scripts
    bmode = tape.pick(("set", "input", "input_late"), "bmode")
    a.script = ca.interleave(
        tape, [("set_code", code_a)],
        [("send", _payload(tape, b"A", i))
         for i in range(tape.choose(3, "na"))])
    np_b, words_b = code_b.split("-", 1)
    if bmode == "set":
        cb = [("set_code", code_b)]
    else:
        cb = [("input",), ("helper", "choose_nameplate", np_b)]
        if bmode == "input_late":
            cb.append(("wait_steps", 4 + tape.choose(30, "late")))
        cb.append(("helper", "choose_words", words_b))
    b.script = ca.interleave(
        tape, cb, [("send", _payload(tape, b"B", i))
                   for i in range(tape.choose(3, "nb"))])
    for c in (a, b):
        c.script += [("wait_all_delivered", "B" if c is a else "A") if match
                     else
                     ("wait_event_or_steps", "closed",
                      400 + tape.choose(400, "wv")),
                     ("probe_keys",),
                     ("wait_steps", tape.choose(40, "linger")),
                     ("close",)]
    c3 = None
    if not match and same_mailbox and appid_a == appid_b and \
            (tape.choose(3, "third") == 0 or focus == "crowded_mismatch"):
        # a third party tries the same nameplate with yet another code: the
        # server admits two sides and answers the third with 'crowded'
        c3 = w.add_client("C", appid=appid_a, api="deferred",
                          versions={"who": "C"})
        c3.script = [("wait_steps", tape.choose(60, "c3w") if not focus else
                      tape.choose(12, "c3w_f")),
                     ("set_code", code_a.split("-")[0] + "-zz-top"),
                     ("wait_event_or_steps", "closed",
                      200 + tape.choose(300, "c3v")),
                     ("close",)]
    if focus == "crowded_mismatch":
        ca.pick_faults(tape, w, ("cut", "stall"), 5)
        w.fault_budget = max(w.fault_budget, 3)
    elif opts.get("faults", True):
        ca.pick_faults(tape, w, ("cut", "server_restart", "mbox_dup",
                                 "mbox_reorder", "mbox_replay_stored"), 3)
    viol = []

    def V(key, clause, detail):
        if not viol:
            viol.append({"key": key, "clause": clause, "detail": detail})

    # truth: who processed a peer encrypted message
    heard = {"A": [False, False, False], "B": [False, False, False],
             "C": [False, False, False]}
    pake_delivered = {"A": False, "B": False, "C": False}

    def on_server_msg(c, msg):
        if msg.get("type") == "message" and msg.get("side") != c.side and \
                not c.close_called and not c.is_closed:
            h = heard[c.name]
            if msg.get("phase") == "pake":
                h[1] = True
                pake_delivered[c.name] = True
            else:
                h[2] = True
    w.on_server_msg = on_server_msg

    def on_op(c, op, ok):
        if ok and (op[0] == "set_code" or
                   (op[0] == "helper" and op[1] == "choose_words")):
            heard[c.name][0] = True
    w.on_op = on_op
    derived = {"A": {}, "B": {}, "C": {}}
    samples = [(tape.pick(PURPOSES, "pu"), tape.pick((1, 8, 16, 32, 64, 1000),
                                                     "pl")) for _ in range(4)]

    def probe_keys(c):
        if not c.has("key"):
            return
        for purpose, n in samples:
            try:
                derived[c.name][(purpose, n)] = c.w.derive_key(purpose, n)
            except Exception as e:
                V("C01.derive_key_raised", "derive_key works once a key exists",
                  "%s: derive_key(%r,%d) raised %r" % (c.name, purpose, n, e))
    w.extra_ops = {"probe_keys": probe_keys}

    def on_app_event(c, kind, value):
        if not match and kind in ("verifier", "versions", "message"):
            V("C01.delivered_on_mismatch." + kind,
              "if the codes (or application ids) differ, neither side ever "
              "reports a verifier, peer versions or an application message",
              "%s got %s although codeA=%r codeB=%r appids=%r/%r (relation "
              "%s)" % (c.name, kind, code_a, code_b, appid_a, appid_b,
                       relation))
    w.on_app_event = on_app_event

    def done():
        return bool(viol) or (a.is_closed and b.is_closed and
                              (c3 is None or c3.is_closed) and
                              w.scripts_done())
    sim.run(4000, until=done)
    w.heal()
    r = sim.run(6000, until=done, max_time=900)
    w.finish()
    if not viol and r == "until":
        if match:
            va, vb = a.value("verifier"), b.value("verifier")
            ka, kb = a.value("key"), b.value("key")
            if va is None or vb is None:
                V("C01.no_verifier_on_match", "when both sides use the same "
                  "code (after NFC) and application id they end up with the "
                  "same session key and both report a verifier",
                  "relation %s codeA=%r codeB=%r: verifiers %r / %r; closed "
                  "%r / %r" % (relation, code_a, code_b, va, vb,
                               a.closed_results, b.closed_results))
            elif va != vb or ka != kb:
                V("C01.verifier_differs", "identical verifiers on both sides",
                  "relation %s: %r vs %r" % (relation, va, vb))
            else:
                for key_, da in derived["A"].items():
                    db = derived["B"].get(key_)
                    if db is not None and da != db:
                        V("C01.derive_key_differs", "derive_key(purpose, n) "
                          "yields identical bytes on both sides",
                          "%r: %r vs %r" % (key_, da, db))
                    if len(da) != key_[1]:
                        V("C01.derive_key_length", "derive_key returns n bytes",
                          "%r -> %d bytes" % (key_, len(da)))
                items = list(derived["A"].items())
                for i in range(len(items)):
                    for j in range(i + 1, len(items)):
                        (p1, n1), d1 = items[i]
                        (p2, n2), d2 = items[j]
                        if n1 == n2 and n1 >= 8 and \
                                unicodedata.normalize("NFC", p1) != \
                                unicodedata.normalize("NFC", p2) and d1 == d2:
                            V("C01.derive_key_purpose_ignored", "derive_key "
                              "yields different bytes for different purposes",
                              "%r and %r both -> %r" % (p1, p2, d1))
        else:
            for c in (a, b):
                h = heard[c.name]
                res = c.closed_results[0] if c.closed_results else None
                if all(h):
                    if not isinstance(res, E.WrongPasswordError):
                        V("C01.mismatch_verdict", "each side that hears from "
                          "the other (with a different code) closes with "
                          "WrongPasswordError",
                          "%s processed the peer's PAKE and an encrypted "
                          "message but closed with %r (relation %s)" %
                          (c.name, res, relation))
                elif res == "happy":
                    V("C01.happy_on_mismatch", "no happy verdict when the "
                      "codes differ", "%s closed happy (relation %s)" %
                      (c.name, relation))
    elif not viol:
        sim.note("settle_incomplete")
        if match:
            V("C01.no_verifier_on_match", "when both sides use the same code "
              "(after NFC) and application id they end up with the same "
              "session key and both report a verifier",
              "relation %s codeA=%r codeB=%r: no verifier within the bound "
              "after faults stopped (%s); events A=%r B=%r" %
              (relation, code_a, code_b, r,
               [k for k, _ in a.events][-5:], [k for k, _ in b.events][-5:]))
    sim.note("relation." + relation)
    if b.w._boss._K._debug_pake_stashed:
        sim.note("probe.pake_before_code")
    nontrivial = pake_delivered["A"] and pake_delivered["B"]
    return ca.result(sim, w, viol[0] if viol else None, nontrivial, seed,
                     extra_sample={"relation": relation, "code_a": code_a,
                                   "code_b": code_b, "match": match,
                                   "appids": [appid_a, appid_b]})


if __name__ == "__main__":
    import sys
    sys.exit(runner.main(sys.modules[__name__]))
