"""C11 - Dilation peers agree on roles, use one connection at a time,
re-converge."""
from simlib import boot  # noqa: F401
from simlib import runner
from checks import common_c as cc
from wormhole._dilation.roles import LEADER, FOLLOWER
from wormhole._dilation.connection import DilatedConnectionProtocol
from worlds.dilation import unwrap

PROP = "C11"
LEVEL = "exploration"
QUICK_S = 45
THOROUGH_S = 900
TECHNIQUE = ("deterministic simulation of two real Managers/Connectors/L2 "
             "protocols racing several candidate links per generation, with "
             "loss of the selected link noticed by either side first (or by "
             "one side only), loss of candidates, ping expiry and w.dilate() "
             "timing chosen by the scheduler; invariants after every event, "
             "convergence within a bound after faults stop")
RULE = ("One evaluation = one seeded execution (direct hints one way or both "
        "ways => 1-2 candidate links per generation, handshakes progressing "
        "chunk by chunk), control messages FIFO per sender, dilate() started "
        "at tape-chosen times on the two sides, 0..5 faults: cut / half-open "
        "of the selected link, cut of a candidate while another survives. "
        "Non-trivial: the selected link was lost at least once, or two "
        "candidates raced in one generation. Distinct: event-log digests "
        "among non-trivial runs.")
LEVEL_TEXT = ("Seeded exploration. After every event: roles differ and the "
              "Leader is the side with the larger dilation side; each side "
              "has at most one live selected L2 protocol; a connection the "
              "Follower selected was selected by the Leader (same simulated "
              "link) before. After the last fault: both Managers are "
              "connected over the two ends of one link within 12000 events / "
              "900 simulated seconds.")
LEVEL_NOTE = ("Fast world (FIFO control channel instead of the mailbox). The "
              "relay topology is not part of the convergence check: the relay "
              "pairs by token+side regardless of generation, so convergence "
              "there depends on relay-side timing (observed during the build, "
              "see DESIGN.md). Connection attempts are allowed to complete "
              "(no clock jump while a connect is pending), as the statement "
              "requires.")
ASSUMPTIONS = ["own Noise implementation", "control channel FIFO per sender"]
COMPONENTS = {"real": ["_dilation.manager/connector/connection"],
              "stub": ["mailbox (FIFO control channel)", "Noise (own)",
                       "kernel TCP"]}


def configs(tier):
    return [{"staged": False}, {"staged": None}]


def run_one(seed, tape, opts):
    w = cc.setup(tape, opts, relay_ok=False)
    sim = w.sim
    faults = cc.L2Faults(w, tape, tape.choose(6, "fb"))
    started = set()
    delay = {"A": tape.choose(40, "da"), "B": tape.choose(40, "db")}

    def extra():
        evs = []
        for s in w.sides:
            if s.name not in started and sim.steps >= delay[s.name]:
                evs.append(("start:" + s.name,
                            lambda s=s: (started.add(s.name), s.start(w.key))))
        return evs
    w.extra_app_events = extra
    # a keep-alive so that 'steps' advance even when nothing else happens
    def tick():
        if len(started) < 2:
            sim.reactor.callLater(0.05, tick)
    sim.reactor.callLater(0.05, tick)
    sim.fault_events = faults.events
    viol = []
    seen_sel = set()
    raced = [0]
    gen_links = {}

    def V(key, clause, detail):
        if not viol:
            viol.append({"key": key, "clause": clause, "detail": detail})

    def oracle():
        if viol:
            return
        ra, rb = w.A.role, w.B.role
        if ra is not None and rb is not None:
            if ra is rb:
                V("C11.same_role", "both sides reach the same answer about who "
                  "is Leader and who is Follower", "both are %r" % (ra,))
                return
        for s in w.sides:
            if s.role is not None:
                peer = w.peer_of(s)
                want = LEADER if s.dside > peer.dside else FOLLOWER
                if s.role is not want:
                    V("C11.wrong_role", "the side with the higher dilation "
                      "side leads", "%s side %s vs %s has role %r" %
                      (s.name, s.dside, peer.dside, s.role))
                    return
        for s in w.sides:
            live = []
            for p in s.selected():
                e = w.l2_end[p]
                if e.alive and not e.transport.disconnecting:
                    live.append(p)
            if len(live) > 1:
                V("C11.two_connections", "at any moment each side uses at most "
                  "one peer connection", "%s has %d live selected connections"
                  % (s.name, len(live)))
                return
            for p in s.selected():
                if p in seen_sel:
                    continue
                seen_sel.add(p)
                if s.role is FOLLOWER:
                    e = w.l2_end[p]
                    q = unwrap(e.peer.protocol)
                    if not isinstance(q, DilatedConnectionProtocol) or \
                            q._manager is None:
                        V("C11.follower_selected_unconfirmed", "a Follower "
                          "only ever uses a connection on which the Leader "
                          "has confirmed its selection",
                          "%s selected link %d whose Leader end was never "
                          "selected" % (s.name, e.link.serial))
                        return
    sim.after_step = oracle

    def converged():
        return len(started) == 2 and w.both_connected()
    # chaos: run a while even after first convergence so that faults can hit
    sim.run(3000, until=lambda: bool(viol) or (converged() and
                                               faults.budget <= 0))
    faults.heal()
    steps0, t0 = sim.steps, sim.now()
    r = sim.run(12000, until=lambda: bool(viol) or converged(), max_time=900)
    w.finish()
    if not viol and r != "until":
        V("C11.no_convergence", "after any loss of the connection in use the "
          "two sides converge on a new shared connection without deadlock",
          "after heal: %s after %d events / %.0f s; A: role %s conn=%s gen %d; "
          "B: role %s conn=%s gen %d; faults %r" %
          (r, sim.steps - steps0, sim.now() - t0, w.A.role,
           w.A.m._connection is not None, w.A.m._next_dilation_generation,
           w.B.role, w.B.m._connection is not None,
           w.B.m._next_dilation_generation, faults.fired[:8]))
    cands = max(len(s.l2_protocols()) for s in w.sides)
    nontrivial = faults.selected_cuts > 0 or cands >= 2
    for etype, text, why in w.log.errors:
        sim.note("logged." + etype)
    return {"violation": viol[0] if viol else None, "nontrivial": nontrivial,
            "digest": sim.hexdigest(), "trace": sim.trace,
            "stats": {"steps": sim.steps, "sim_s": sim.now() - 1000.0,
                      "notes": sim.notes},
            "sample": {"seed": seed, "topology": w.topo, "ping": w.ping,
                       "start_delays": delay, "faults": faults.fired[:8],
                       "l2_connections": cands,
                       "generations": [s.m._next_dilation_generation
                                       for s in w.sides]}}


if __name__ == "__main__":
    import sys
    sys.exit(runner.main(sys.modules[__name__]))
