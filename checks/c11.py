"""C11 - Dilation peers agree on roles, use one connection at a time,
re-converge."""
from simlib import boot  # noqa: F401
from simlib import runner
from checks import common_c as cc
from wormhole._dilation.roles import LEADER, FOLLOWER
from wormhole._dilation.connection import DilatedConnectionProtocol
from worlds.dilation import unwrap

PROP = "C11"
LEVEL = "exploration"
QUICK_S = 45
THOROUGH_S = 900
TECHNIQUE = ("deterministic simulation of two real Managers/Connectors/L2 "
             "protocols racing several candidate links per generation, with "
             "loss of the selected link noticed by either side first (or by "
             "one side only), loss of candidates, ping expiry and w.dilate() "
             "timing chosen by the scheduler; invariants after every event, "
             "convergence within a bound after faults stop")
RULE = ("One evaluation = one seeded execution (direct hints one way or both "
        "ways => 1-2 candidate links per generation, handshakes progressing "
        "chunk by chunk), control messages FIFO per sender, dilate() started "
        "at tape-chosen times on the two sides, 0..5 faults: cut / half-open "
        "of the selected link, cut of a candidate while another survives. "
        "Non-trivial: the selected link was lost at least once, or two "
        "candidates raced in one generation. Distinct: event-log digests "
        "among non-trivial runs.")
RULE += (' The end-to-end configuration also loses the connection silently (no end told, clock running: only the ping monitor notices).')
RULE += (' Half of the runs of the first three configurations carry application traffic (subchannels opened, written to and closed from either side, also while no connection exists), so that a replacement connection starts with records waiting to be re-sent.')
RULE += (' A sixth configuration kills one direction of the connection in use silently (nothing the Leader sends arrives, the Follower\'s data keeps arriving): only the ping monitor can notice, and the sides must still end up on a new shared connection.')
RULE += (' A fifth configuration (relay_race) has direct hints and a relay; after the first connection only the relay stays reachable.')
LEVEL_TEXT = ("Seeded exploration. After every event: roles differ and the "
              "Leader is the side with the larger dilation side; each side "
              "has at most one live selected L2 protocol; a connection the "
              "Follower selected was selected by the Leader (same simulated "
              "link) before. After the last fault: both Managers are "
              "connected over the two ends of one link within 12000 events / "
              "900 simulated seconds.")
LEVEL_NOTE = ("Fast world (FIFO control channel instead of the mailbox). The "
              "relay topology is not part of the convergence check: the relay "
              "pairs by token+side regardless of generation, so convergence "
              "there depends on relay-side timing (observed during the build, "
              "see DESIGN.md). Connection attempts are allowed to complete "
              "(no clock jump while a connect is pending), as the statement "
              "requires.")
ASSUMPTIONS = ["own Noise implementation", "control channel FIFO per sender"]
COMPONENTS = {"real": ["_dilation.manager/connector/connection"],
              "stub": ["mailbox (FIFO control channel)", "Noise (own)",
                       "kernel TCP"]}


def configs(tier):
    # the third configuration: a long session with 6..12 losses (the control
    # messages' dilate-N counter passes 10)
    return [{"staged": False}, {"staged": None},
            {"staged": False, "long_session": True},
            {"e2e": True}, {"relay_race": True}, {"one_way": True}]


def run_e2e(seed, tape, opts, app=None):
    """The same convergence question end to end: two real wormholes with
    Dilation over the real mailbox server (control messages travel as
    dilate-N phases through Boss/Mailbox), the peer link lost 5..9 times in
    one session, told to both sides or to one side first."""
    from checks import common_a as ca
    from worlds.mailbox import MailboxWorld
    w = MailboxWorld(tape, dict(opts, spake="stub"))
    sim = w.sim
    sim.no_advance_while_connecting = True
    sim.allow_advance = False
    a = w.add_client("A", api="deferred", dilation=True)
    b = w.add_client("B", api="deferred", dilation=True)
    code = ca.fixed_code(tape)
    a.script = [("set_code", code), ("dilate", {"no_listen":
                                                tape.choose(3, "nla") == 0})]
    b.script = [("set_code", code), ("dilate", {})]
    viol = []

    def mgr(c):
        return c.w._boss._D._manager

    def conns():
        ma, mb = mgr(a), mgr(b)
        if ma is None or mb is None:
            return None
        if ma._connection is None or mb._connection is None:
            return None
        return (ma._connection, mb._connection)
    sim.run(8000, until=lambda: conns() is not None, max_time=300)
    nloss = 5 + tape.choose(5, "nloss")
    if app is not None and conns() is not None:
        app.start(w, a, b)
    if conns() is None:
        viol.append({"key": "C11.no_convergence", "clause": "the two sides "
                     "agree on roles and converge on a shared connection",
                     "detail": "end to end: both sides dilate and can reach "
                     "each other, yet no shared connection after 8000 events "
                     "/ 300 s; manager states %s / %s" %
                     (_st(mgr(a)) if mgr(a) else None,
                      _st(mgr(b)) if mgr(b) else None)})
        nloss = 0
    done_losses = 0
    for i in range(nloss):
        old = conns()
        # () = a silent loss: neither end is told, only the Leader's ping
        # monitor can notice (the dead ends are revealed after convergence)
        tell = tape.pick((("c", "s"), ("c", "s"), ("c",), ("s",), ()), "tell")
        live = [l for l in sim.net.links if l.mode == "stream" and l.up and
                all(e.alive and e.made for e in l.ends)]
        for l in live:
            sim.net.cut(l, tell)
        sim.note("fault.cut")
        sim.ev("peer_links_cut", i, "".join(tell))
        if len(tell) == 1:
            sim.run(tape.choose(40, "gap"), max_time=5)
            for l in live:
                sim.net.reveal(l)
        # only the clock can end a silent loss (ping monitor)
        sim.allow_advance = not tell
        # (... but only when nothing else can happen: a clock that runs ahead
        # of bytes in flight would make every handshake look like a dead peer)
        saved_w = sim.weights["advance"]
        sim.weights["advance"] = 0
        sim.run(12000, until=lambda: conns() is not None and
                conns()[0] is not old[0] and conns()[1] is not old[1] or
                bool(a.closed_results or b.closed_results or a.saw_failure or
                     b.saw_failure), max_time=300)
        sim.allow_advance = False
        sim.weights["advance"] = saved_w
        c2 = conns()
        if not tell:
            for l in live:
                sim.net.reveal(l)
            sim.run(200, max_time=1)
            if c2 is not None and c2[0] is not old[0] and c2[1] is not old[1]:
                c2 = conns()
        if a.closed_results or b.closed_results or a.saw_failure or \
                b.saw_failure:
            viol.append({"key": "C11.e2e_wormhole_failed", "clause": "after "
                         "any loss the two sides converge on a new shared "
                         "connection", "detail": "after loss #%d a wormhole "
                         "failed: %r / %r" % (i + 1, a.events[-2:],
                                              b.events[-2:])})
            break
        if c2 is None or c2[0] is old[0] or c2[1] is old[1]:
            viol.append({"key": "C11.no_convergence", "clause": "after any "
                         "loss of the connection in use the two sides "
                         "converge on a new shared connection without "
                         "deadlock", "detail": "end to end: after loss #%d "
                         "(told %r) no new shared connection within 12000 "
                         "events / 300 s; manager states %s / %s" %
                         (i + 1, tell, _st(mgr(a)), _st(mgr(b)))})
            break
        done_losses += 1
        if app is not None:
            app.after_loss(i)
    if app is not None and not viol:
        v = app.finish()
        if v:
            viol.append(v)
    for c in (a, b):
        c.do_close()
    sim.run(4000, until=lambda: a.is_closed and b.is_closed, max_time=200)
    w.finish()
    return ca.result(sim, w, viol[0] if viol else None, done_losses >= 1,
                     seed, extra_sample={"e2e": True, "losses": nloss,
                                         "reconverged": done_losses})


def run_relay_race(seed, tape, opts):
    """Direct hints and a relay. The direct path is slow to come up (its
    dials hang for more than RELAY_DELAY, so the relay attempts have been
    started), then a direct connection wins while relay attempts may still
    be in flight. Later the connection in use is lost and only the relay is
    reachable: the new generation's relay attempts complete, so the sides
    must converge again."""
    from worlds.dilation import DilationWorld, RELAY_HOST
    w = DilationWorld(tape, opts)
    sim = w.sim
    sim.weights["advance"] = 0      # time moves only when nothing else can
    relay = w.start_relay()
    w.ping = 30.0
    w.topo = "both+relay"
    # the relay may be configured on one side only: the other side learns of
    # it from the connection-hints messages alone, in every generation
    only = tape.pick((None, None, "A", "B"), "relay_only_on")
    for s in w.sides:
        s.build_manager(relay=relay if only in (None, s.name) else None,
                        ping_interval=30.0)
    direct = ("127.0.0.1", "10.1.0.1")
    for h in direct:
        sim.net.host_mode[h] = "hang"
    viol = []

    def shared():
        # one link, or two links glued together by the relay
        la, lb = w.current_link(w.A), w.current_link(w.B)
        if la is None or lb is None or not (la.up and lb.up):
            return False
        if la is lb:
            return True
        ra = [unwrap(e.protocol) for e in la.ends
              if getattr(e.protocol, "factory", None) is w.relay_factory]
        rb = [unwrap(e.protocol) for e in lb.ends
              if getattr(e.protocol, "factory", None) is w.relay_factory]
        return bool(ra and rb and getattr(getattr(ra[0], "_buddy", None),
                                          "_client", None) is rb[0])
    w.both_connected = shared
    for s in w.sides:
        s.start(w.key)

    def relay_attempted():
        return any(a.host == RELAY_HOST for a in sim.net.attempts) or \
            any(hp[0] == RELAY_HOST for hp in sim.net.dial_log)
    sim.run(4000, until=relay_attempted, max_time=10)
    sim.run(tape.choose(30, "race_w"), max_time=0.5)
    sim.ev("direct_path_up")
    for h in direct:
        sim.net.host_mode[h] = "ok"
    sim.run(6000, until=w.both_connected, max_time=120)
    first_ok = w.both_connected()
    if not first_ok:
        viol.append({"key": "C11.no_convergence", "clause": "the two sides "
                     "converge on a shared connection", "detail": "relay "
                     "race: no shared connection although direct and relay "
                     "paths are open; states %s / %s" %
                     (_st(w.A.m), _st(w.B.m))})
    nloss = 0
    for i in range(1 + tape.choose(3, "rr_losses") if first_ok else 0):
        sim.run(tape.choose(200, "rr_gap"), max_time=5)
        link = w.current_link(w.A)
        if link is None:
            break
        old = (w.A.m._connection, w.B.m._connection)
        # from now on only the relay is reachable
        for h in direct:
            sim.net.host_mode[h] = "refuse"
        sim.ev("loss_relay_only", i)
        sim.note("fault.cut")
        sim.net.cut(link, tape.pick((("c", "s"), ("c",), ("s",)), "rr_tell"))
        sim.run(tape.choose(60, "rr_rev"), max_time=2)
        sim.net.reveal(link)
        nloss += 1

        def again():
            return w.both_connected() and \
                w.A.m._connection is not old[0] and \
                w.B.m._connection is not old[1]
        r = sim.run(15000, until=again, max_time=400)
        if not again():
            waiting = sum(1 for l in sim.net.links for e in l.ends
                          if e.alive and l.up and
                          getattr(l.ends[1].protocol, "factory", None) is
                          w.relay_factory) // 2
            viol.append({"key": "C11.no_convergence", "clause": "after any "
                         "loss of the connection in use the two sides "
                         "converge on a new shared connection, provided the "
                         "network lets at least one attempt of the new "
                         "generation complete", "detail": "relay race: after "
                         "loss #%d only the relay is reachable and its "
                         "attempts complete, yet no shared connection (%s "
                         "after %.0f s); states %s / %s; links open at the "
                         "relay: %d" % (i + 1, r, sim.now() - 1000.0,
                                        _st(w.A.m), _st(w.B.m), waiting)})
            break
    w.finish()
    return {"violation": viol[0] if viol else None, "nontrivial": nloss > 0,
            "digest": sim.hexdigest(), "trace": sim.trace,
            "stats": {"steps": sim.steps, "sim_s": sim.now() - 1000.0,
                      "notes": sim.notes},
            "sample": {"seed": seed, "topology": "both+relay",
                       "relay_configured_on": only or "both",
                       "relay_only_losses": nloss}}


def _st(m):
    for k in ("_state", "_manager_state"):
        if hasattr(m, k):
            return getattr(m, k)
    c = m._connection
    return "conn=%s gen=%s" % ("yes" if c else "no",
                               getattr(m, "_next_dilation_generation", "?"))


def run_one_way(seed, tape, opts):
    """A loss that neither end is told about and that kills one direction
    only: from a drawn time nothing the Leader sends arrives while the
    Follower's data keeps arriving. Only the Leader's ping monitor can notice;
    the sides must end up on a new shared connection (C16's one_way regime,
    judged here for convergence)."""
    from checks import c16
    from simlib.core import HarnessError
    try:
        res = c16.run_one(seed, tape, dict(opts, regime="one_way"))
    except HarnessError as e:
        if "no connection" not in str(e):
            raise
        # a clean start (no fault yet) that never produced a shared
        # connection is this property's business
        from simlib.core import REACTOR  # noqa: F401
        return {"violation": {"key": "C11.no_convergence", "clause": "the two "
                              "sides agree on roles and converge on a shared "
                              "connection", "detail": "clean start, both "
                              "sides dilate and can reach each other, yet no "
                              "shared connection (%s)" % e},
                "nontrivial": False, "digest": "no-connection-%d" % seed,
                "trace": None, "stats": {"steps": 0, "sim_s": 0.0,
                                         "notes": {}},
                "sample": {"seed": seed, "one_way": True}}
    v = res.get("violation")
    if v and v["key"].startswith("C16."):
        res["violation"] = {
            "key": "C11.no_convergence",
            "clause": "after any loss of the connection in use the two sides "
                      "converge on a new shared connection without deadlock",
            "detail": "one direction of the connection in use died silently "
                      "(the Follower's data still arrives): " + v["detail"] +
                      " [" + v["key"] + "]"}
    return res


def run_one(seed, tape, opts):
    if opts.get("one_way"):
        return run_one_way(seed, tape, opts)
    if opts.get("e2e"):
        return run_e2e(seed, tape, opts)
    if opts.get("relay_race"):
        return run_relay_race(seed, tape, opts)
    w = cc.setup(tape, opts, relay_ok=False)
    sim = w.sim
    faults = cc.L2Faults(w, tape, 6 + tape.choose(7, "fb2")
                         if opts.get("long_session") else
                         tape.choose(6, "fb"))
    started = set()
    delay = {"A": tape.choose(40, "da"), "B": tape.choose(40, "db")}
    # half of the runs carry application traffic (subchannels opened, written
    # to and closed from either side, also while no connection exists), so
    # that a new connection starts with records waiting to be re-sent
    wl = None
    if tape.choose(2, "with_data") == 0:
        wl = cc.Workload(w, tape, max_subs=2, max_ops=8)
        sim.note("probe.with_application_traffic")

    def extra():
        evs = wl.app_events() if wl is not None else []
        for s in w.sides:
            if s.name not in started and sim.steps >= delay[s.name]:
                evs.append(("start:" + s.name,
                            lambda s=s: (started.add(s.name), s.start(w.key))))
        return evs
    w.extra_app_events = extra
    # a keep-alive so that 'steps' advance even when nothing else happens
    def tick():
        if len(started) < 2:
            sim.reactor.callLater(0.05, tick)
    sim.reactor.callLater(0.05, tick)
    sim.fault_events = faults.events
    viol = []
    seen_sel = set()
    raced = [0]
    gen_links = {}

    def V(key, clause, detail):
        if not viol:
            viol.append({"key": key, "clause": clause, "detail": detail})

    def oracle():
        if viol:
            return
        ra, rb = w.A.role, w.B.role
        if ra is not None and rb is not None:
            if ra is rb:
                V("C11.same_role", "both sides reach the same answer about who "
                  "is Leader and who is Follower", "both are %r" % (ra,))
                return
        for s in w.sides:
            if s.role is not None:
                peer = w.peer_of(s)
                want = LEADER if s.dside > peer.dside else FOLLOWER
                if s.role is not want:
                    V("C11.wrong_role", "the side with the higher dilation "
                      "side leads", "%s side %s vs %s has role %r" %
                      (s.name, s.dside, peer.dside, s.role))
                    return
        for s in w.sides:
            live = []
            for p in s.selected():
                e = w.l2_end[p]
                if e.alive and not e.transport.disconnecting:
                    live.append(p)
            if len(live) > 1:
                V("C11.two_connections", "at any moment each side uses at most "
                  "one peer connection", "%s has %d live selected connections"
                  % (s.name, len(live)))
                return
            for p in s.selected():
                if p in seen_sel:
                    continue
                seen_sel.add(p)
                if s.role is FOLLOWER:
                    e = w.l2_end[p]
                    q = unwrap(e.peer.protocol)
                    if not isinstance(q, DilatedConnectionProtocol) or \
                            q._manager is None:
                        V("C11.follower_selected_unconfirmed", "a Follower "
                          "only ever uses a connection on which the Leader "
                          "has confirmed its selection",
                          "%s selected link %d whose Leader end was never "
                          "selected" % (s.name, e.link.serial))
                        return
    sim.after_step = oracle

    def converged():
        return len(started) == 2 and w.both_connected()
    # chaos: run a while even after first convergence so that faults can hit
    sim.run(3000, until=lambda: bool(viol) or (converged() and
                                               faults.budget <= 0))
    faults.heal()
    steps0, t0 = sim.steps, sim.now()
    r = sim.run(12000, until=lambda: bool(viol) or converged(), max_time=900)
    w.finish()
    if not viol and r != "until":
        V("C11.no_convergence", "after any loss of the connection in use the "
          "two sides converge on a new shared connection without deadlock",
          "after heal: %s after %d events / %.0f s; A: role %s conn=%s gen %d; "
          "B: role %s conn=%s gen %d; faults %r" %
          (r, sim.steps - steps0, sim.now() - t0, w.A.role,
           w.A.m._connection is not None, w.A.m._next_dilation_generation,
           w.B.role, w.B.m._connection is not None,
           w.B.m._next_dilation_generation, faults.fired[:8]))
    cands = max(len(s.l2_protocols()) for s in w.sides)
    nontrivial = faults.selected_cuts > 0 or cands >= 2
    for etype, text, why in w.log.errors:
        sim.note("logged." + etype)
    return {"violation": viol[0] if viol else None, "nontrivial": nontrivial,
            "digest": sim.hexdigest(), "trace": sim.trace,
            "stats": {"steps": sim.steps, "sim_s": sim.now() - 1000.0,
                      "notes": sim.notes},
            "sample": {"seed": seed, "topology": w.topo, "ping": w.ping,
                       "start_delays": delay, "faults": faults.fired[:8],
                       "l2_connections": cands,
                       "generations": [s.m._next_dilation_generation
                                       for s in w.sides]}}


if __name__ == "__main__":
    import sys
    sys.exit(runner.main(sys.modules[__name__]))
