"""C02 - the mailbox server cannot forge, alter, re-label, replay or reflect."""
import json

from simlib import boot  # noqa: F401
from simlib import runner
from checks import common_a as ca
from worlds.mailbox import MailboxWorld, _msg_type

PROP = "C02"
LEVEL = "fault_enumeration"
QUICK_S = 45
THOROUGH_S = 900
TECHNIQUE = ("deterministic simulation with a Byzantine mailbox layer: tamper "
             "operations (flip/truncate/extend/relabel phase/relabel side/"
             "reflect/cross-phase replay/inject) fired at scheduler-chosen "
             "positions of an honest exchange; ledger oracle over every "
             "plaintext the application receives")
RULE = ("One evaluation = one seeded execution of two real clients (real "
        "spake2) with unique plaintexts and versions; 1..3 tamper operations "
        "applied by the fault layer to `message` events in flight to a client "
        "(before and after key agreement), optionally combined with "
        "reconnects and replays. Non-trivial: at least one tamper operation "
        "hit a message that the target had not processed yet. Distinct: "
        "event-log digests among non-trivial runs.")
RULE += (' A fifth configuration runs long exchanges (up to 80 messages a side) with late verbatim replays of early records of either side (version/pake/phase 0/1). Sweep operations include non-ASCII look-alike labels, third-side re-labelling and pake-withholding.')
RULE += (' A seventh configuration runs two sessions one after the other in one process and replays what the server forwarded in the first (verbatim, under the old side) right behind the new peer\'s pake in the second.')
RULE += (' In the long configuration the server may also sit on one numbered message while 9..20 later ones pass, and deliver it afterwards.')
LEVEL_TEXT = ("Fault enumeration: every tamper operation of the sweep table "
              "(bit flips, truncation, extension, drop, duplicate, side and "
              "phase re-labelling incl. non-ASCII look-alike labels, cross-"
              "phase replay, reflection, fabricated bodies and PAKE bodies) "
              "at each of the first 8 `message` events sent to each client "
              "of a fixed honest exchange, plus seeded exploration of "
              "combined operations under reconnects. Ledger: "
              "every delivered application message list must be a prefix of "
              "what the peer passed to send_message (exact bytes, no repeats); "
              "delivered versions must equal the peer's app_versions; a "
              "client may ignore a tampered event or close with an error, "
              "never deliver manipulated / re-labelled / reflected content.")
LEVEL_NOTE = ("Real spake2/PyNaCl. The adversary has no keys; it can read, "
              "modify, duplicate, withhold and fabricate mailbox events and "
              "knows both side ids.")
ASSUMPTIONS = ["message-framed websocket stub, simulated TCP"]
COMPONENTS = {"real": ["wormhole client", "spake2 0.9 (always)", "PyNaCl",
                       "wormhole_mailbox_server"],
              "stub": ["Autobahn", "TCP/DNS"]}

OPS = ("flip", "truncate", "extend", "phase_swap", "phase_set", "side_to_peer",
       "side_to_own", "side_to_third", "cross_phase", "inject_body",
       "inject_pake", "reflect", "drop")


def configs(tier):
    # the fifth configuration: long exchanges (up to 80 messages a side) with
    # a late verbatim replay of early messages (dedup state under load)
    return [{"spake": "real", "reorder_heavy": i % 2 == 1} for i in range(4)] \
        + [{"spake": "real", "long": True},
           # both sides also dilate: dilate-N control messages share the
           # mailbox (and the reorder buffers) with the numbered phases
           {"spake": "real", "dilate": True, "reorder_heavy": True},
           # two sessions in one process; session-1 messages replayed under
           # the old side into session 2
           {"spake": "real", "cross_session": True}]


SWEEP_OPS = (
    [("flip", x) for x in ("first", "mid", "last")] +
    [("truncate", x) for x in ("empty", "half", "minus1")] +
    [("extend", 1), ("drop",), ("dup",), ("side_to_peer",), ("side_to_own",)] +
    [("side_to_third", v) for v in range(5)] +
    [("phase_set", p) for p in ("0", "1", "2", "version", "pake", "9")] +
    [("cross_phase", j) for j in range(4)] +
    [("reflect", j) for j in range(4)] +
    [("reflect_as", j, v) for j in range(3) for v in range(3)] +
    [("relabel_replay", j, v) for j in range(3) for v in range(4)] +
    [("early_relabel", j, v) for j in (1, 2, 3) for v in range(5)] +
    [("inject_body", p) for p in ("0", "1", "version")] +
    [("inject_pake", j) for j in range(3)])


def side_variant(side, v):
    return (side + "\u00e9", "\u0301" + side, "0badc0de", side.upper() + "\u200b",
            side + " ")[v]


def phase_variant(phase, v):
    # Arabic-Indic digit one appended, Arabic-Indic zero prepended, fullwidth
    # zero appended, accented letter appended, leading space, leading zero
    return (phase + "\u0661", "\u0660" + phase, phase + "\uff10",
            phase + "\u00e9", " " + phase, "0" + phase)[v]


def sweep(tier):
    """Enumerated part: every tamper operation x every position of the stream
    of `message` events sent to each client in a fixed honest exchange."""
    out = []
    scheds = 1 if tier == "quick" else 4
    for sched in range(scheds):
        for target in ("A", "B"):
            for k in range(8):
                for op in SWEEP_OPS:
                    if op[0] == "early_relabel" and k:
                        continue    # position-independent
                    out.append({"spake": "real", "sweep": {
                        "target": target, "k": k, "op": list(op),
                        "sched": sched}})
    return out


def run_sweep_case(seed, tape, opts):
    """Fixed honest exchange (2 messages each way), one tamper operation at one
    position; only the schedule comes from the tape."""
    sw = opts["sweep"]
    w = MailboxWorld(tape, opts)
    sim = w.sim
    a = w.add_client("A", api="delegate", versions={"v": "A"})
    b = w.add_client("B", api="deferred", versions={"v": "B"})
    w.mode = "sweep"
    code = "7-sweep-code"
    for c, peer in ((a, "B"), (b, "A")):
        c.script = [("set_code", code),
                    ("send", ("%s-msg-0" % c.name).encode()),
                    ("send", ("%s-msg-1" % c.name).encode()),
                    ("wait_all_delivered_or_steps", peer, 4000), ("close",)]
    count = {"n": 0}
    fired = []
    target = w.by_name(sw["target"])
    op = sw["op"]

    def other_side(c):
        return (b if c is a else a).side

    forbidden = set()      # phases whose only copy reached the target under
    #                        a changed label: they must never be delivered
    early = {"held": None, "n": 0, "done": False}

    def tamper_early(m):
        # withhold the peer's pake; the next j peer messages arrive first,
        # under another side label; then the pake is released
        d = json.loads(m[1:].decode())
        if d["side"] != other_side(target) or early["done"]:
            return m
        if d["phase"] == "pake" and early["held"] is None:
            early["held"] = m
            sim.ev("tamper", target.name, "withhold_pake")
            return None
        if early["held"] is None:
            return m
        forbidden.add(d["phase"])
        d["side"] = side_variant(other_side(target), op[2])
        early["n"] += 1
        fired.append((early["n"], "early_relabel", d["phase"]))
        sim.note("fault.mbox_tamper.sweep_early_relabel")
        out = [b"M" + json.dumps(d).encode()]
        if early["n"] >= op[1]:
            early["done"] = True
            out.append(early["held"])
        return out

    def tamper(end, m):
        # server -> client direction only, `message` events to the target
        if end.role != "c" or end.link.owner is not target or \
                _msg_type(m) != "message":
            return m
        if op[0] == "early_relabel":
            return tamper_early(m)
        k = count["n"]
        count["n"] += 1
        if k != sw["k"]:
            return m
        d = json.loads(m[1:].decode())
        body = bytes.fromhex(d["body"])
        stored = [x for x in w.server.stored_messages()]
        kind = op[0]
        out = None
        if kind == "flip":
            if not body:
                return m
            pos = {"first": 0, "mid": len(body) // 2,
                   "last": len(body) - 1}[op[1]]
            body = body[:pos] + bytes([body[pos] ^ 0x01]) + body[pos + 1:]
            d["body"] = body.hex()
        elif kind == "truncate":
            n = {"empty": 0, "half": len(body) // 2,
                 "minus1": max(0, len(body) - 1)}[op[1]]
            d["body"] = body[:n].hex()
        elif kind == "extend":
            d["body"] = (body + b"\x00").hex()
        elif kind == "drop":
            fired.append((k, kind, d["phase"]))
            sim.note("fault.mbox_tamper.sweep_" + kind)
            return None
        elif kind == "dup":
            out = [m, m]
        elif kind == "side_to_peer":
            if d["side"] != other_side(target):
                pass       # (an own echo re-labelled as the peer's)
            d["side"] = other_side(target)
        elif kind == "side_to_own":
            if d["side"] == other_side(target):
                forbidden.add(d["phase"])
            d["side"] = target.side
        elif kind == "side_to_third":
            # a genuine peer message under a side label that is neither
            # party's (or only looks like the peer's)
            if d["side"] != other_side(target):
                return m
            forbidden.add(d["phase"])
            d["side"] = side_variant(other_side(target), op[1])
        elif kind == "phase_set":
            if d["phase"] == op[1]:
                return m
            if d["side"] == other_side(target):
                forbidden.add(d["phase"])
            d["phase"] = op[1]
        elif kind == "cross_phase":
            srcs = [x for x in stored
                    if x["side"] == d["side"] and x["phase"] != d["phase"]]
            if op[1] >= len(srcs):
                return m
            d["body"] = srcs[op[1]]["body"]
        elif kind == "reflect":
            own = [x for x in stored if x["side"] == target.side]
            if op[1] >= len(own):
                return m
            x = own[op[1]]
            out = [m, b"M" + json.dumps(
                {"type": "message", "side": other_side(target),
                 "phase": x["phase"], "body": x["body"], "id": "r"}).encode()]
        elif kind == "reflect_as":
            # the client's own message under a side label that merely looks
            # like / normalises to its own, or under a fresh one
            own = [x for x in stored if x["side"] == target.side]
            if op[1] >= len(own):
                return m
            x = own[op[1]]
            out = [m, b"M" + json.dumps(
                {"type": "message", "side": side_variant(target.side, op[2]),
                 "phase": x["phase"], "body": x["body"], "id": "r"}).encode()]
        elif kind == "relabel_replay":
            # a genuine peer body replayed under a phase label that is a
            # different string but may parse / encode like the original
            theirs = [x for x in stored if x["side"] == other_side(target)
                      and x["phase"] != "pake"]
            if op[1] >= len(theirs):
                return m
            x = theirs[op[1]]
            out = [m, b"M" + json.dumps(
                {"type": "message", "side": x["side"],
                 "phase": phase_variant(x["phase"], op[2]),
                 "body": x["body"], "id": "r"}).encode()]
        elif kind == "inject_body":
            out = [b"M" + json.dumps(
                {"type": "message", "side": other_side(target),
                 "phase": op[1], "body": (b"fabricated" * 5).hex(),
                 "id": "f"}).encode(), m]
        elif kind == "inject_pake":
            pk = (b'{"pake_v1": "%s"}' % (b"\x53" + b"\x11" * 32).hex().encode(),
                  b'{}', b'junk')[op[1]]
            out = [b"M" + json.dumps(
                {"type": "message", "side": other_side(target),
                 "phase": "pake", "body": pk.hex(), "id": "f"}).encode(), m]
        fired.append((k, kind, d.get("phase")))
        sim.note("fault.mbox_tamper.sweep_" + kind)
        sim.ev("tamper", target.name, kind, k)
        if out is not None:
            return out
        return b"M" + json.dumps(d).encode()
    sim.on_link = lambda link: setattr(link, "tamper", tamper)
    prefix = ca.PrefixOracle(a, b)
    viol = []

    nvers = {}

    def on_app_event(c, kind, value):
        peer = b if c is a else a
        if kind == "versions" and value != peer.versions:
            viol.append({"key": "C02.versions_forged",
                         "clause": "delivered versions equal the peer's "
                                   "app_versions",
                         "detail": "%s got versions %r, peer passed %r (sweep "
                                   "%r)" % (c.name, value, peer.versions, sw)})
        if kind == "versions":
            nvers[c.name] = nvers.get(c.name, 0) + 1
            if nvers[c.name] > 1:
                viol.append({"key": "C02.versions_twice", "clause": "never "
                             "delivers a phase twice", "detail": "%s was "
                             "given the peer's versions %d times" %
                             (c.name, nvers[c.name])})
    w.on_app_event = on_app_event
    sim.after_step = prefix.step

    def done():
        return bool(viol or prefix.violation) or \
            (a.is_closed and b.is_closed and w.scripts_done())
    sim.run(6000, until=done)
    w.heal()
    sim.run(6000, until=done, max_time=900)
    w.finish()
    v = (viol[0] if viol else None) or prefix.violation
    if v and v["key"] == "C03.prefix":
        v = dict(v, key="C02.ledger",
                 clause="every delivered plaintext was encrypted by the peer "
                        "for exactly that phase; never manipulated content, "
                        "never a phase twice",
                 detail=v["detail"] + " | sweep: %r fired %r" % (sw, fired))
    if not v and forbidden and not w.faults_fired:
        # the only copy of these phases reached the target under a changed
        # label (no reconnect, so the server sent each message once): the
        # client may ignore it or close with an error, not act on it
        acted = []
        for ph in sorted(forbidden):
            if ph == "version" and target.has("versions"):
                acted.append("version -> versions")
            elif ph.isdigit() and len(target.received) > int(ph):
                acted.append("phase %s -> message %r" %
                             (ph, target.received[int(ph)][:20]))
        if acted:
            v = {"key": "C02.relabelled_accepted",
                 "clause": "re-labelling phase or side: the client ignores "
                           "the message or closes with an error",
                 "detail": "%s acted on re-labelled message(s): %s | sweep: "
                           "%r fired %r" % (target.name, "; ".join(acted), sw,
                                            fired)}
    return ca.result(sim, w, v, bool(fired), seed,
                     extra_sample={"sweep": sw, "fired": fired})


def run_cross_session(seed, tape, opts):
    """Two sessions, one after the other, in one process (a GUI client, a
    daemon). The server recorded what it forwarded to A in session 1 and, in
    session 2, hands A's successor those messages again - verbatim, under the
    old peer's side - right behind the new peer's pake, i.e. ahead of the new
    peer's own version / phase 0."""
    from worlds.mailbox import MailboxWorld
    w = MailboxWorld(tape, dict(opts, spake="real", read_after_lose=False))
    sim = w.sim
    apis = ("deferred", "delegate")
    recorded = []
    st = {"session": 1, "injected": 0}
    a1 = w.add_client("A", api=tape.pick(apis, "api_a1"),
                      versions={"who": "A", "session": 1})
    b1 = w.add_client("B", api=tape.pick(apis, "api_b1"),
                      versions={"who": "B", "session": 1})
    code1 = "%d-first-session" % (1 + tape.choose(40, "np1"))
    n1 = 1 + tape.choose(3, "n1")
    a1.script = [("set_code", code1), ("send", b"A1-hello"),
                 ("wait_all_delivered_or_steps", "B", 800), ("close",)]
    b1.script = [("set_code", code1)] + \
        [("send", b"B1-SESSION-ONE-SECRET-%d" % i) for i in range(n1)] + \
        [("wait_all_delivered_or_steps", "A", 800), ("close",)]
    a2 = b2 = None

    def on_server_msg(c, msg):
        if msg.get("type") != "message":
            return
        if st["session"] == 1:
            if c is a1 and msg.get("side") == b1.side and \
                    msg.get("phase") != "pake":
                recorded.append(dict(msg))
            return
        if c is a2 and msg.get("side") == b2.side and \
                msg.get("phase") == "pake" and not st["injected"] and recorded:
            for link in sim.net.links:
                if link.mode == "message" and link.up and link.owner is a2:
                    end = link.ends[0]
                    for k, m in enumerate(recorded):
                        end.inflight.insert(k, b"M" + json.dumps(
                            dict(m, id="replay-%d" % k)).encode())
                        st["injected"] += 1
                    sim.note("fault.mbox_tamper.cross_session_replay")
                    sim.ev("tamper", "C", "cross_session_replay",
                           len(recorded))
                    break
    w.on_server_msg = on_server_msg
    sim.run(8000, until=lambda: a1.is_closed and b1.is_closed, max_time=600)
    st["session"] = 2
    a2 = w.add_client("C", api=tape.pick(apis, "api_a2"),
                      versions={"who": "C", "session": 2})
    b2 = w.add_client("D", api=tape.pick(apis, "api_b2"),
                      versions={"who": "D", "session": 2})
    code2 = code1 if tape.choose(2, "same_code") == 0 else \
        "%d-second-session" % (50 + tape.choose(40, "np2"))
    a2.script = [("set_code", code2), ("send", b"C2-hello"),
                 ("wait_all_delivered_or_steps", "D", 800), ("close",)]
    b2.script = [("wait_steps", tape.choose(40, "b2_late")),
                 ("set_code", code2)] + \
        [("send", b"D2-session-two-%d" % i)
         for i in range(1 + tape.choose(3, "n2"))] + \
        [("wait_all_delivered_or_steps", "C", 800), ("close",)]
    prefix = ca.PrefixOracle(a2, b2)
    viol = []

    def on_app_event(c, kind, value):
        if c is a2 and kind == "versions" and value != b2.versions:
            viol.append({"key": "C02.versions_forged", "clause": "delivered "
                         "versions equal the peer's app_versions",
                         "detail": "second session: %s got versions %r, its "
                         "peer passed %r (recorded session-1 messages were "
                         "replayed under the old side)" %
                         (c.name, value, b2.versions)})
    w.on_app_event = on_app_event
    sim.after_step = prefix.step
    sim.run(8000, until=lambda: bool(viol or prefix.violation) or
            (a2.is_closed and b2.is_closed), max_time=600)
    w.heal()
    sim.run(4000, until=lambda: bool(viol or prefix.violation) or
            (a2.is_closed and b2.is_closed), max_time=600)
    w.finish()
    v = (viol[0] if viol else None) or prefix.violation
    if v and v["key"] == "C03.prefix":
        v = dict(v, key="C02.ledger",
                 clause="every delivered plaintext was encrypted by a holder "
                        "of the session key for exactly that phase and that "
                        "sender",
                 detail=v["detail"] + " | second session in this process; "
                        "%d recorded session-1 messages replayed under the "
                        "old peer's side" % st["injected"])
    for c in (a2, b2):
        for res in c.closed_results:
            sim.note("verdict2." + (res if isinstance(res, str)
                                    else type(res).__name__))
    return ca.result(sim, w, v, st["injected"] > 0, seed,
                     extra_sample={"cross_session": True,
                                   "recorded": [m.get("phase")
                                                for m in recorded],
                                   "same_code": code1 == code2})


def run_one(seed, tape, opts):
    if opts.get("sweep"):
        return run_sweep_case(seed, tape, opts)
    if opts.get("cross_session"):
        return run_cross_session(seed, tape, opts)
    w, a, b = ca.build_pair(tape, opts, max_msgs=80 if opts.get("long")
                            else 4)
    sim = w.sim
    # unique, attributable plaintexts
    for c in (a, b):
        n = 0
        for i, op in enumerate(c.script):
            if op[0] == "send":
                c.script[i] = ("send", ("%s-msg-%d-" % (c.name, n)).encode() +
                               tape.blob(tape.choose(30, "pl"), n))
                n += 1
    for c, peer in ((a, "B"), (b, "A")):
        c.script += [("wait_all_delivered_or_steps", peer,
                      (6000 if opts.get("long") else 600) +
                      tape.choose(600, "wd")), ("close",)]
    ca.pick_faults(tape, w, ("cut", "server_restart", "mbox_dup",
                             "mbox_replay_stored"), 2)
    tamper_budget = [0 if opts.get("long") else 1 + tape.choose(3, "tb")]
    enabled_ops = [o for o in OPS if tape.choose(3, "op_on") != 0] or ["flip"]
    stash = {"A": [], "B": []}     # every message event seen heading to X
    fired = []
    sides = {}

    focus = tape.pick(("any", "numeric", "numeric", "version", "pake",
                       "nonpake"), "focus")

    def in_focus(phase):
        if focus == "any":
            return True
        if focus == "numeric":
            return phase.isdigit()
        if focus == "nonpake":
            return phase != "pake"
        return phase == focus

    def msgs_in_flight(end):
        out = []
        for i, m in enumerate(end.inflight):
            if _msg_type(m) == "message":
                try:
                    ph = json.loads(m[1:].decode()).get("phase", "")
                except Exception:
                    continue
                if in_focus(ph):
                    out.append(i)
        return out

    late_replays = [3 if opts.get("long") else 0]

    def late_replay(end):
        # the server re-sends, verbatim, an early genuine peer message
        # (version, pake or phase 0) long after it was first delivered
        c = end.link.owner
        old_ = [x for x in w.server.stored_messages()
                if x["phase"] in ("version", "pake", "0", "1")]
        # (the client's own early records too: a verbatim echo, long after
        # the first one, is still an echo)
        if not old_:
            return
        x = tape.pick(old_, "late_i")
        late_replays[0] -= 1
        end.inflight.append(b"M" + json.dumps(
            {"type": "message", "side": x["side"], "phase": x["phase"],
             "body": x["body"], "id": "late"}).encode())
        fired.append((sim.steps, c.name, "late_replay", x["phase"], None))
        sim.note("fault.mbox_tamper.late_replay")
        sim.ev("tamper", c.name, "late_replay", x["phase"])

    def extra_faults():
        evs0 = []
        if late_replays[0] > 0:
            for link in w.sim.net.links:
                if link.mode == "message" and link.up and \
                        link.owner is not None and link.ends[0].alive and \
                        (len(link.owner.received) >= 33 or
                         len(link.owner.sent) >= 66):
                    evs0.append(("late_replay:%d" % link.serial,
                                 lambda e=link.ends[0]: late_replay(e), 30))
        if tamper_budget[0] <= 0:
            return evs0
        evs = evs0
        for link in w.sim.net.links:
            if link.mode != "message" or not link.up or link.owner is None:
                continue
            end = link.ends[0]
            idxs = msgs_in_flight(end)
            if idxs:
                evs.append(("mbox_tamper:%d" % link.serial,
                            lambda e=end, ix=idxs: tamper(e, ix), 60))
            elif stash[link.owner.name] and end.alive and \
                    ("inject_body" in enabled_ops or
                     "inject_pake" in enabled_ops or
                     "reflect" in enabled_ops):
                evs.append(("mbox_inject:%d" % link.serial,
                            lambda e=end: inject(e), 6))
        return evs
    w.extra_fault_events = extra_faults
    w.fault_budget = max(w.fault_budget, 1)   # keep the fault list alive

    def other_side(c):
        return (b if c is a else a).side

    def tamper(end, idxs):
        c = end.link.owner
        i = tape.pick(idxs, "t_i")
        m = json.loads(end.inflight[i][1:].decode())
        body = bytes.fromhex(m["body"])
        orig = dict(m)
        others = [x for x in idxs if x != i]
        srcs = [x for x in w.server.stored_messages()
                if x["side"] == m["side"] and x["phase"] != m["phase"]]
        applicable = []
        for o in enabled_ops:
            if o in ("flip", "truncate") and not body:
                continue
            if o == "phase_swap" and not others:
                continue
            if o == "cross_phase" and not srcs:
                continue
            if o in ("inject_body", "inject_pake", "reflect"):
                continue
            applicable.append(o)
        if not applicable:
            applicable = ["extend"]
        op = tape.pick(applicable, "t_op")
        if op == "flip":
            k = tape.choose(len(body), "t_off")
            body = body[:k] + bytes([body[k] ^ (1 << tape.choose(8, "bit"))]) \
                + body[k + 1:]
            m["body"] = body.hex()
        elif op == "truncate":
            m["body"] = body[:tape.choose(len(body), "t_len")].hex()
        elif op == "extend":
            m["body"] = (body + tape.blob(1 + tape.choose(20, "xl"), 7)).hex()
        elif op == "phase_swap":
            j = tape.pick(others, "t_j")
            m2 = json.loads(end.inflight[j][1:].decode())
            m["phase"], m2["phase"] = m2["phase"], m["phase"]
            end.inflight[j] = b"M" + json.dumps(m2).encode()
        elif op == "phase_set":
            if tape.choose(3, "t_phv") == 0:
                m["phase"] = phase_variant(m["phase"], tape.choose(6, "t_pv"))
            else:
                m["phase"] = tape.pick(("0", "1", "2", "3", "version", "pake",
                                        "dilate-0", "99"), "t_ph")
        elif op == "side_to_peer":
            m["side"] = other_side(c)
        elif op == "side_to_own":
            m["side"] = c.side
        elif op == "side_to_third":
            m["side"] = side_variant(m["side"], tape.choose(5, "t_sv"))
        elif op == "cross_phase":
            # an earlier body of the same sender replayed under this phase
            src = tape.pick(srcs, "t_src")
            m["body"] = src["body"]
        elif op == "drop":
            del end.inflight[i]
            _note(c, op, orig, None)
            return
        end.inflight[i] = b"M" + json.dumps(m).encode()
        _note(c, op, orig, m)

    def inject(end):
        c = end.link.owner
        kind = tape.pick([o for o in ("inject_body", "inject_pake", "reflect")
                          if o in enabled_ops], "inj")
        if kind == "inject_body":
            m = {"type": "message", "side": other_side(c),
                 "phase": tape.pick(("0", "1", "2", "version"), "iph"),
                 "body": tape.blob(40 + tape.choose(40, "il"), 3).hex(),
                 "id": "fab1"}
        elif kind == "inject_pake":
            pk = tape.pick((b'{"pake_v1": "%s"}' %
                            tape.blob(33, 5).hex().encode(),
                            b'{"pake_v1": "00"}', b'{}', b'not json'),
                           "ipk")
            m = {"type": "message", "side": other_side(c), "phase": "pake",
                 "body": pk.hex(), "id": "fab2"}
        elif tape.choose(3, "r_kind") == 0 and any(
                x["side"] != c.side and x["phase"] != "pake"
                for x in stash[c.name]):
            src = tape.pick([x for x in stash[c.name] if x["side"] != c.side
                             and x["phase"] != "pake"], "rr_src")
            m = dict(src)
            m["phase"] = phase_variant(src["phase"], tape.choose(6, "rr_v"))
        else:
            own = [x for x in stash[c.name] if x["side"] == c.side]
            if not own:
                return
            src = tape.pick(own, "r_src")
            m = dict(src)
            m["side"] = other_side(c) if tape.choose(3, "r_sv") else \
                side_variant(c.side, tape.choose(5, "r_sv2"))
        end.inflight.insert(tape.choose(len(end.inflight) + 1, "ipos"),
                            b"M" + json.dumps(m).encode())
        _note(c, kind, None, m)

    def _note(c, op, orig, new):
        tamper_budget[0] -= 1
        fired.append((sim.steps, c.name, op,
                      (orig or {}).get("phase"), (new or {}).get("phase")))
        sim.note("fault.mbox_tamper." + op)
        sim.ev("tamper", c.name, op)

    # long exchanges: the server may sit on one of the peer's numbered
    # messages while 9..20 later ones go through, and hand it over afterwards
    # (an unordered set of messages is all the server promises)
    wh = {"left": 1 if opts.get("long") and tape.choose(3, "wh?") else 0,
          "held": None, "since": 0, "need": 9 + tape.choose(12, "wh_need")}

    def wh_release():
        if wh["held"] is None:
            return
        end, raw = wh["held"]
        wh["held"] = None
        if end.alive and end.link.up:
            end.inflight.append(raw)
            sim.ev("tamper", end.link.owner.name, "withheld_released")

    def wh_step():
        if wh["held"] is not None:
            end = wh["held"][0]
            if wh["since"] >= wh["need"] or not end.alive or not end.link.up:
                wh_release()
            return
        if wh["left"] <= 0:
            return
        for link in sim.net.links:
            if link.mode != "message" or not link.up or link.owner is None:
                continue
            end = link.ends[0]
            c = link.owner
            if not end.alive or c.close_called:
                continue
            for i, m in enumerate(end.inflight):
                if _msg_type(m) != "message":
                    continue
                try:
                    d = json.loads(m[1:].decode())
                except Exception:
                    continue
                if d.get("side") != c.side and \
                        str(d.get("phase", "")).isdigit() and \
                        tape.chance(12, "wh_now"):
                    wh["held"] = (end, end.inflight.pop(i))
                    wh["left"] -= 1
                    wh["since"] = 0
                    wh["owner"] = c.name
                    fired.append((sim.steps, c.name, "withhold", d["phase"],
                                  None))
                    sim.note("fault.mbox_tamper.withhold")
                    sim.ev("tamper", c.name, "withhold", d["phase"])
                    return

    def on_server_msg(c, msg):
        if msg.get("type") == "message":
            if wh["held"] is not None and wh.get("owner") == c.name:
                wh["since"] += 1
            stash[c.name].append(msg)
            if len(stash[c.name]) > 40:
                del stash[c.name][0]
    w.on_server_msg = on_server_msg
    # the tap only exists for links made after on_server_msg was set: set now
    prefix = ca.PrefixOracle(a, b)
    viol = []

    nvers = {}

    def on_app_event(c, kind, value):
        peer = b if c is a else a
        if kind == "versions" and value != peer.versions:
            viol.append({"key": "C02.versions_forged",
                         "clause": "delivered versions equal the peer's "
                                   "app_versions",
                         "detail": "%s got versions %r, peer passed %r" %
                                   (c.name, value, peer.versions)})
        if kind == "versions":
            nvers[c.name] = nvers.get(c.name, 0) + 1
            if nvers[c.name] > 1:
                viol.append({"key": "C02.versions_twice", "clause": "never "
                             "delivers a phase twice", "detail": "%s was "
                             "given the peer's versions %d times (tamper ops "
                             "%r)" % (c.name, nvers[c.name], fired[:6])})
    w.on_app_event = on_app_event

    def oracle():
        prefix.step()
        wh_step()
        if late_replays[0] > 0:
            for link in sim.net.links:
                if link.mode == "message" and link.up and \
                        link.owner is not None and link.ends[0].alive and \
                        (len(link.owner.received) >= 33 or
                         len(link.owner.sent) >= 66) and \
                        not link.owner.close_called and \
                        tape.chance(100, "late?"):
                    late_replay(link.ends[0])
                    break
    sim.after_step = oracle

    def done():
        return bool(viol or prefix.violation) or \
            (a.is_closed and b.is_closed and w.scripts_done())
    sim.run(20000 if opts.get("long") else 5000, until=done)
    w.heal()
    tamper_budget[0] = 0
    late_replays[0] = 0
    wh["left"] = 0
    wh_release()
    r = sim.run(6000, until=done, max_time=900)
    w.finish()
    v = (viol[0] if viol else None) or prefix.violation
    if v and v["key"] == "C03.prefix":
        v = dict(v, key="C02.ledger",
                 clause="every delivered plaintext was encrypted by the peer "
                        "for exactly that phase; never manipulated content, "
                        "never a phase twice",
                 detail=v["detail"] + " | tamper ops: %r" % (fired,))
    if r != "until" and not v:
        sim.note("settle_incomplete")
    for c in (a, b):
        for res in c.closed_results:
            sim.note("verdict." + (res if isinstance(res, str)
                                   else type(res).__name__))
    nontrivial = bool(fired)
    return ca.result(sim, w, v, nontrivial, seed,
                     extra_sample={"tamper": fired[:6],
                                   "enabled_ops": enabled_ops})


if __name__ == "__main__":
    import sys
    sys.exit(runner.main(sys.modules[__name__]))
