"""Shared workload / fault helpers for the world-C (Dilation) checks."""
from simlib.core import HarnessError
from worlds.dilation import DilationWorld, RecProtocol

SIZES = (0, 1, 5, 100, 4000, 65509, 65510, 65511, 70000, 140000)


def setup(tape, opts, relay_ok=True, ping=None, expected=(None, None)):
    w = DilationWorld(tape, opts)
    sim = w.sim
    topo = tape.pick(("both", "both", "a_only", "b_only", "relay"), "topo") \
        if relay_ok else tape.pick(("both", "both", "a_only", "b_only"), "topo")
    relay = None
    if topo == "relay":
        relay = w.start_relay()
    if opts.get("staged") or (opts.get("staged") is None and
                              tape.choose(2, "staged")):
        # transport send buffers drain only when the scheduler says so
        sim.net.autoflush = False
        sim.net.high_water = opts.get("hw") or tape.pick((1, 1000, 65536),
                                                         "hw")
        sim.net.window = tape.pick((2000, 100000, 1 << 30), "win")
        sim.note("probe.staged_transport")
    if ping is None:
        ping = tape.pick((1.0, 5.0, 30.0), "ping")
    w.ping = ping
    w.topo = topo
    w.A.build_manager(relay=relay, ping_interval=ping, expected=expected[0],
                      no_listen=topo in ("b_only", "relay"))
    w.B.build_manager(relay=relay, ping_interval=ping, expected=expected[1],
                      no_listen=topo in ("a_only", "relay"))
    return w


class Workload:
    """Scripted application actors on both sides: listen / open / write /
    close on several subchannels, in both directions."""

    def __init__(self, w, tape, max_subs=3, max_ops=12, names=("p1", "p2"),
                 big=True, listen_late=False, pausing=False, producers=False):
        self.w = w
        self.tape = tape
        if w.opts.get("_tier") == "thorough" and names:
            max_subs, max_ops = max_subs + 2, max_ops * 3
        self.scripts = {"A": [], "B": []}
        self.pc = {"A": 0, "B": 0}
        self.handles = {"A": [], "B": []}     # connect() records
        sizes = SIZES if big else SIZES[:5]
        for s in w.sides:
            sc = []
            for n in names:
                sc.append(("listen", n))
            nsub = tape.choose(max_subs + 1, "nsub")
            ops = []
            for i in range(nsub):
                ops.append(("open", tape.pick(names, "oname")))
            nops = tape.choose(max_ops + 1, "nops")
            for j in range(nops):
                k = tape.choose(10, "opk")
                if k < 5:
                    ops.append(("write", tape.choose(max(1, nsub), "wh"),
                                tape.blob(tape.pick(sizes, "wsz")
                                          if tape.choose(4, "wbig") == 0
                                          else tape.choose(60, "wsm"), j)))
                elif k < 8:
                    ops.append(("awrite", tape.choose(3, "ah"),
                                tape.blob(tape.choose(60, "asz"), 50 + j)))
                elif k == 8:
                    ops.append(("close", tape.choose(max(1, nsub), "ch")))
                else:
                    ops.append(("aclose", tape.choose(3, "ach")))
                if producers and tape.choose(4, "prd") == 0:
                    # the application registers a producer on one of its
                    # subchannels; told to pause, it writes a last
                    # "checkpoint" record from inside pauseProducing()
                    ops.append(("producer", tape.choose(max(1, nsub), "prh")))
                if pausing and tape.choose(3, "pz") == 0:
                    # slow applications: stop the flow on a subchannel for a
                    # while (resumed later, at the latest when faults stop)
                    ops.append((tape.pick(("pause", "apause", "apause",
                                           "resume", "aresume"), "pzk"),
                                tape.choose(3, "pzh")))
            if listen_late:
                # listeners may be registered after OPENs arrive
                from checks.common_a import interleave
                sc = interleave(tape, ops, sc)
            else:
                sc = sc + ops
            self.scripts[s.name] = sc
        self.issued = []      # (side, op) actually executed

    def done(self):
        return all(self.pc[n] >= len(self.scripts[n]) for n in ("A", "B"))

    def resume_all(self):
        for side in self.w.sides:
            self._run(side, ("resume_all",))

    def _accepted(self, side):
        return [p for p in side.protocols if p.role == "acceptor" and p.made]

    def _enabled(self, side, op):
        kind = op[0]
        if kind in ("listen", "open"):
            return True
        if kind in ("write", "close", "pause", "resume", "producer"):
            h = self.handles[side.name]
            if not h:
                return True      # nothing was opened: the op is a no-op
            rec = h[op[1] % len(h)]
            return rec[1] != "pending"
        return True

    def _run(self, side, op):
        kind = op[0]
        if kind == "listen":
            side.listen(op[1])
        elif kind == "open":
            self.handles[side.name].append(side.connect(op[1]))
        elif kind in ("write", "close", "pause", "resume", "producer"):
            h = self.handles[side.name]
            if not h:
                return
            rec = h[op[1] % len(h)]
            if rec[1] != "ok":
                return
            self._on_proto(side, rec[2], kind, op)
        elif kind in ("awrite", "aclose", "apause", "aresume"):
            acc = self._accepted(side)
            if not acc:
                return
            p = acc[op[1] % len(acc)]
            self._on_proto(side, p, kind[1:], op)
        elif kind == "resume_all":
            for p in side.protocols:
                if getattr(p, "app_paused", False):
                    self._on_proto(side, p, "resume", op)

    def _on_proto(self, side, p, kind, op):
        if kind == "pause":
            # a slow application: stop the flow on this subchannel for a while
            if not p.lost and not p.closed_local and p.made and \
                    not getattr(p, "app_paused", False):
                p.transport.pauseProducing()
                p.app_paused = True
                self.w.sim.note("probe.app_paused_subchannel")
            return
        if kind == "resume":
            if getattr(p, "app_paused", False):
                p.app_paused = False
                if not p.lost:
                    p.transport.resumeProducing()
            return
        if kind == "producer":
            if p.lost or p.closed_local or getattr(p, "has_producer", False):
                return
            p.has_producer = True
            self.w.sim.note("probe.checkpointing_producer")
            try:
                p.transport.registerProducer(_Checkpointer(self, p), True)
            except Exception:
                p.has_producer = False
            return
        if kind == "write":
            # (the application issued this write now: anything it writes from
            # callbacks that run inside the call comes after it)
            p.writes.append(op[2])
            idx = len(p.writes) - 1
            try:
                p.transport.write(op[2])
                if p.closed_local or p.lost:
                    del p.writes[idx]
                    p.write_errors.append(("no-error", len(op[2])))
            except Exception as e:
                del p.writes[idx]
                if p.closed_local or p.lost:
                    p.write_errors.append((type(e).__name__, len(op[2])))
                else:
                    p.write_errors.append(("UNEXPECTED:" + type(e).__name__,
                                           len(op[2])))
        else:
            try:
                p.transport.loseConnection()
                p.closed_local = True
            except Exception as e:
                p.close_errors = getattr(p, "close_errors", []) + \
                    [type(e).__name__]

    def app_events(self):
        evs = []
        for side in self.w.sides:
            n = side.name
            if self.pc[n] < len(self.scripts[n]):
                op = self.scripts[n][self.pc[n]]
                if self._enabled(side, op):
                    evs.append(("%s:%s" % (n, op[0]),
                                lambda side=side, op=op: self._step(side, op)))
        return evs

    def _step(self, side, op):
        self.pc[side.name] += 1
        self.issued.append((side.name, op[0]))
        self._run(side, op)


class _Checkpointer:
    """A push producer that, told to pause, writes one more record (a
    checkpoint) from inside pauseProducing()."""

    def __init__(self, wl, p):
        from zope.interface import directlyProvides
        from twisted.internet.interfaces import IPushProducer
        directlyProvides(self, IPushProducer)
        self.wl, self.p = wl, p
        self.budget = 2

    def pauseProducing(self):
        p = self.p
        if self.budget <= 0 or p.lost or p.closed_local:
            return
        self.budget -= 1
        data = b"checkpoint-%d" % self.budget
        p.writes.append(data)
        idx = len(p.writes) - 1
        self.wl.w.sim.note("probe.write_from_pauseProducing")
        try:
            p.transport.write(data)
        except Exception:
            del p.writes[idx]

    def resumeProducing(self):
        pass

    def stopProducing(self):
        pass


def install_greeter(w, tape):
    """Applications that talk from inside connectionMade(): a greeting
    written there (and sometimes the close right behind it) belongs to the
    subchannel like any other write."""
    def greeter(p):
        k = tape.choose(5, "greet")
        if k < 2:
            return
        data = b"hello from %s %s" % (p.role.encode(), p.name.encode())
        p.transport.write(data)
        p.writes.append(data)
        w.sim.note("probe.write_from_connectionMade")
        if k == 4:
            p.transport.loseConnection()
            p.closed_local = True
            w.sim.note("probe.close_from_connectionMade")
    w.greeter = greeter
    # ... and from inside dataReceived (answer, answer and hang up, hang up)
    # or connectionLost (open the next subchannel): request/response style
    opens_left = [2]

    def reactive(p, kind):
        if kind == "data":
            if getattr(p, "reacted", False) or p.closed_local or p.lost:
                return
            k = tape.choose(8, "react")
            if k == 3 and getattr(w, "reactive_pause", False) and p.made \
                    and not getattr(p, "app_paused", False):
                # a consumer that cannot keep up says so from dataReceived
                p.transport.pauseProducing()
                p.app_paused = True
                w.sim.note("probe.pause_from_dataReceived")
                return
            if k >= 3:
                return
            p.reacted = True
            w.sim.note("probe.api_call_from_dataReceived")
            if k in (0, 1):
                data = b"re:%d" % len(p.data)
                p.transport.write(data)
                p.writes.append(data)
            if k in (1, 2):
                p.transport.loseConnection()
                p.closed_local = True
        elif kind == "lost" and opens_left[0] > 0 and \
                tape.choose(6, "reopen") == 0:
            opens_left[0] -= 1
            w.sim.note("probe.connect_from_connectionLost")
            p.side.connect(p.name, type(p))
    w.reactive = reactive


class L2Faults:
    """cut / half-open / blackhole on peer-to-peer links."""

    def __init__(self, w, tape, budget, kinds=("cut", "half_open")):
        self.w = w
        self.tape = tape
        if w.opts.get("_tier") == "thorough" and budget:
            budget = budget * 2 + tape.choose(4, "fb_thorough")
        self.budget = budget
        self.kinds = kinds
        self.fired = []
        self.selected_cuts = 0
        self.candidate_cuts = True
        self._gens = None
        self._epoch_serial = 0
        self._cand_cut_in_epoch = False

    def events(self):
        if self.budget <= 0:
            return []
        evs = []
        w = self.w
        cur = set(id(l) for l in (w.current_link(w.A), w.current_link(w.B))
                  if l is not None)
        live = [l for l in w.sim.net.links
                if l.up and any(e.alive and e.made for e in l.ends)]
        # candidates of the newest generation: links made since the newest
        # generation began on either side
        gens = tuple(s.m._next_dilation_generation for s in w.sides)
        if gens != self._gens:
            self._gens = gens
            self._epoch_serial = max([l.serial for l in w.sim.net.links] + [0])
            self._cand_cut_in_epoch = False
        fresh = [l for l in live if l.serial > self._epoch_serial and
                 all(e.alive or not e.made for e in l.ends)]
        for link in live:
            sel = id(link) in cur
            if not sel:
                # losing a non-selected candidate is only in scope as long as
                # another candidate of that generation survives
                if not self.candidate_cuts or self._cand_cut_in_epoch or \
                        link not in fresh or len(fresh) < 2:
                    continue
            mult = 6 if sel else 1
            if "cut" in self.kinds:
                evs.append(("cut:%d" % link.serial,
                            lambda l=link, sel=sel: self._cut(l, ("c", "s"),
                                                              sel), mult))
            if "half_open" in self.kinds and sel:
                evs.append(("half_open_c:%d" % link.serial,
                            lambda l=link, sel=sel: self._cut(l, ("c",), sel),
                            2))
                evs.append(("half_open_s:%d" % link.serial,
                            lambda l=link, sel=sel: self._cut(l, ("s",), sel),
                            2))
        return evs

    def _cut(self, link, tell, sel):
        self.budget -= 1
        self.fired.append((self.w.sim.steps, "cut" if len(tell) == 2 else
                           "half_open_" + tell[0], link.serial, sel))
        if not sel:
            self._cand_cut_in_epoch = True
            self.w.sim.note("probe.candidate_link_cut")
        if sel:
            self.selected_cuts += 1
            self.w.sim.note("probe.selected_link_cut")
        self.w.sim.net.cut(link, tell)

    def heal(self):
        self.budget = 0
        self.w.sim.chaos = False
        self.w.sim.chunk_mode = "all"     # fair, fast delivery while settling
        for link in self.w.sim.net.links:
            if not link.up:
                self.w.sim.net.reveal(link)


def subchannel_pairs(w):
    """[(opener_protocol, acceptor_protocol or None)] matched by scid."""
    out = []
    for s in w.sides:
        peer = w.peer_of(s)
        for p in s.opened:
            q = [x for x in peer.protocols
                 if x.role == "acceptor" and x.scid == p.scid]
            out.append((s, p, q))
    return out
