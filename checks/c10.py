"""C10 - Dilation delivers every record exactly once, in order, across
reconnects."""
from simlib import boot  # noqa: F401
from simlib import runner
from checks import common_c as cc

PROP = "C10"
LEVEL = "exploration"
QUICK_S = 45
THOROUGH_S = 900
TECHNIQUE = ("deterministic simulation of two real Dilation Managers with "
             "connection loss injected at any byte position of the selected "
             "peer link (either end told first, or only one); per-subchannel "
             "exactly-once/in-order oracle per event, bounded-liveness oracle "
             "after faults stop")
RULE = ("One evaluation = one seeded execution: two real Managers + "
        "Connectors + L2 protocols + subchannels (own Noise) over simulated "
        "TCP, control messages FIFO per sender; 0..3 subchannels opened from "
        "each side, interleaved writes (0..140000 bytes, incl. multi-Noise-"
        "packet frames), closes, in both directions, issued while connected, "
        "reconnecting and before the first connection; 0..4 losses of the "
        "peer link (cut or half-open, between records, mid-frame, after "
        "delivery but before the ack, during replay). Non-trivial: the "
        "selected link was lost at least once while un-acked records were "
        "outstanding or at least 2 writes happened on one subchannel and a "
        "loss occurred. Distinct: event-log digests among non-trivial runs.")
RULE += (' In 1/3 of runs listeners are registered late (after OPENs may have arrived).')
RULE += (' In half of the runs application protocols greet (write, sometimes close) from inside connectionMade().')
RULE += (' Those applications also react from inside dataReceived (answer, answer and close, close) and sometimes open the next subchannel from inside connectionLost.')
RULE += (' A fifth configuration runs end to end: one subchannel over two real wormholes, written to after each of 5..9 losses.')
LEVEL_TEXT = ("Seeded exploration. For every subchannel and direction the "
              "peer application's dataReceived sequence is a prefix of the "
              "writes (boundaries preserved, nothing twice) after every "
              "event; connectionMade at most once; after the last fault all "
              "issued opens/writes/closes are delivered within 12000 events / "
              "900 simulated seconds.")
LEVEL_NOTE = ("Fast world: the mailbox is replaced by an in-order control "
              "channel (the property's quantifier says FIFO per sender). "
              "Noise is the harness's own NNpsk0 implementation.")
ASSUMPTIONS = ["own Noise implementation (DESIGN.md 3.3)",
               "control channel FIFO per sender"]
COMPONENTS = {"real": ["_dilation.manager/connector/connection/inbound/"
                       "outbound/subchannel", "Twisted endpoints/Cooperator"],
              "stub": ["mailbox (FIFO control channel)", "Noise (own "
                       "implementation)", "kernel TCP"]}


def configs(tier):
    # the fifth: end to end over two real wormholes (control messages travel
    # through Boss and the mailbox server), 5..9 losses in one session
    return [{"faults": i % 4 != 0, "staged": i % 2 == 1,
             "hw": 65536 if i == 3 else None} for i in range(4)] + \
        [{"e2e": True}]


class _E2EOwner:
    def __init__(self, sim, name):
        self.sim = sim
        self.name = name
        self.protocols = []

    def on_sub_event(self, p, kind, data):
        self.sim.ev("sub", self.name, kind)


class _E2EApp:
    """One subchannel over two real wormholes: after each of the 5..9 losses
    of the peer connection both ends write one more chunk; in the end each
    side has received exactly what the other wrote, once and in order."""

    def __init__(self, tape):
        self.tape = tape
        self.opener = self.acceptor = None

    def start(self, w, a, b):
        from worlds.dilation import RecFactory
        self.w, self.sim = w, w.sim
        self.oa, self.ob = _E2EOwner(w.sim, "A"), _E2EOwner(w.sim, "B")
        b.dilated.listener_for("p").listen(RecFactory(self.ob, "p",
                                                      "acceptor"))
        a.dilated.connector_for("p").connect(RecFactory(self.oa, "p",
                                                        "opener"))
        self.sim.run(3000, until=lambda: any(p.made for p in
                                             self.oa.protocols) and
                     any(p.made for p in self.ob.protocols), max_time=60)
        self._write(-1)

    def _ends(self):
        pa = [p for p in self.oa.protocols if p.made]
        pb = [p for p in self.ob.protocols if p.made]
        return (pa[0] if pa else None, pb[0] if pb else None)

    def _write(self, i):
        for p, tag in zip(self._ends(), (b"a", b"b")):
            if p is not None and not p.lost:
                data = tag + b"%d;" % i + self.tape.blob(
                    self.tape.pick((0, 10, 3000), "e2e_len"), 90 + i)
                p.transport.write(data)
                p.writes.append(data)

    def after_loss(self, i):
        self._write(i)

    def finish(self):
        pa, pb = self._ends()
        if pa is None or pb is None:
            return {"key": "C10.liveness", "clause": "each open is delivered "
                    "to the peer", "detail": "end to end: the subchannel "
                    "opened after the first connection never appeared "
                    "(opener made=%s, acceptor made=%s)" %
                    (pa is not None, pb is not None)}

        def settled():
            return b"".join(pb.data) == b"".join(pa.writes) and \
                b"".join(pa.data) == b"".join(pb.writes)
        self.sim.run(8000, until=settled, max_time=300)
        for rx, tx, d in ((pb, pa, "A->B"), (pa, pb, "B->A")):
            got, want = b"".join(rx.data), b"".join(tx.writes)
            if got != want[:len(got)]:
                return {"key": "C10.not_prefix", "clause": "each write is "
                        "delivered exactly once and in order",
                        "detail": "end to end %s: received %d bytes that are "
                        "not a prefix of the %d written" %
                        (d, len(got), len(want))}
            if got != want:
                return {"key": "C10.liveness", "clause": "writes issued "
                        "while no connection exists, or un-acked when it was "
                        "lost, are delivered after the next connection - no "
                        "matter how many times the connection is replaced",
                        "detail": "end to end %s: %d of %d bytes (%d writes) "
                        "arrived within 8000 events / 300 s after the last "
                        "loss" % (d, len(got), len(want), len(tx.writes))}
        return None


def run_one(seed, tape, opts):
    if opts.get("e2e"):
        from checks import c11
        res = c11.run_e2e(seed, tape, opts, app=_E2EApp(tape))
        v = res.get("violation")
        if v and v["key"].startswith("C11."):
            # the connection itself did not come back: for this property
            # that is a write never delivered
            v["key"] = "C10.liveness"
        return res
    # each side may declare the subprotocols it expects (the workload only
    # uses these two names, so nothing is refused)
    exp = tuple(tape.pick((None, None, ("p1", "p2"), ["p2", "p1"]), "exp")
                for _ in range(2))
    w = cc.setup(tape, opts, relay_ok=False, expected=exp)
    sim = w.sim
    if tape.choose(2, "greeter") == 0:
        cc.install_greeter(w, tape)
    listeners_first = tape.choose(3, "listen_late") != 0
    pausing = tape.choose(3, "pausing") == 0
    w.reactive_pause = pausing
    wl = cc.Workload(w, tape, max_subs=3, max_ops=12,
                     listen_late=not listeners_first, pausing=pausing,
                     producers=bool(opts.get("staged")))
    for s_ in w.sides:
        s_.reuse_endpoints = tape.choose(2, "reuse_ep") == 0
    faults = cc.L2Faults(w, tape, tape.choose(5, "fb") if
                         opts.get("faults", True) else 0)
    faults.candidate_cuts = False   # C11 explores the connection race
    started = set()

    def extra():
        evs = wl.app_events()
        for s in w.sides:
            if s.name not in started:
                evs.append(("start:" + s.name,
                            lambda s=s: (started.add(s.name), s.start(w.key))))
        return evs
    w.extra_app_events = extra
    sim.fault_events = faults.events
    viol = []

    def V(key, clause, detail):
        if not viol:
            viol.append({"key": key, "clause": clause, "detail": detail})
    unacked_at_loss = [0]
    real_cut = faults._cut

    def cut_probe(link, tell, sel):
        if sel:
            for s in w.sides:
                if len(s.m._outbound._outbound_queue):
                    unacked_at_loss[0] += 1
                    sim.note("probe.loss_with_unacked_records")
                    break
        real_cut(link, tell, sel)
    faults._cut = cut_probe

    def oracle():
        if viol:
            return
        for s in w.sides:
            for rec in s.connect_results:
                if rec[1] == "failed":
                    V("C10.open_failed." + rec[2].__name__, "each open is "
                      "delivered exactly once", "%s: connect(%r) failed with "
                      "%s" % (s.name, rec[0], rec[2].__name__))
                    return
        for s in w.sides:
            # opens reach the peer application in the order the application
            # issued them (whatever endpoint objects it used)
            pos = {}
            for i, q in enumerate(w.peer_of(s).protocols):
                if q.role == "acceptor" and q.made and q.scid is not None:
                    pos.setdefault(q.scid, i)
            ready = getattr(w.peer_of(s), "listen_ready", {})
            seen = [(rec[3], pos[rec[2].scid], rec[0], rec[4]) for rec in
                    s.connect_results if len(rec) > 4 and rec[1] == "ok" and
                    rec[2].scid in pos]
            seen.sort()
            for (i1, p1, n1, t1), (i2, p2, n2, t2) in zip(seen, seen[1:]):
                # (an open for which no listener was registered yet is held
                # back legitimately: only pairs whose listeners both existed
                # before the first of the two was issued are compared)
                if p1 > p2 and ready.get(n1, 1 << 60) < t1 and \
                        ready.get(n2, 1 << 60) < t1:
                    V("C10.opens_out_of_order", "every open is delivered to "
                      "the peer application exactly once, in the order "
                      "issued", "%s issued connect(%r) before connect(%r), "
                      "the peer application saw them the other way round" %
                      (s.name, n1, n2))
                    return
        for s in w.sides:
            # opens of one subprotocol reach the peer application in the
            # order they were issued (ids are allocated in issue order)
            last = {}
            for q in w.peer_of(s).protocols:
                if q.role != "acceptor" or not q.made or q.scid is None:
                    continue
                if q.scid % 2 != (1 if s is w.leader else 0):
                    continue          # opened by the other side
                if last.get(q.name, -1) > q.scid:
                    V("C10.opens_out_of_order", "every open is delivered to "
                      "the peer application exactly once, in the order "
                      "issued", "%s's %r subchannels reached the peer "
                      "application as id %d before id %d" %
                      (s.name, q.name, last[q.name], q.scid))
                    return
                last[q.name] = q.scid
        for s, p, qs in cc.subchannel_pairs(w):
            if len(qs) > 1:
                V("C10.open_twice", "each open is delivered exactly once",
                  "subchannel %d opened by %s appeared %d times" %
                  (p.scid, s.name, len(qs)))
                return
            if not qs:
                continue
            q = qs[0]
            if q.name != p.name:
                V("C10.open_wrong_listener", "each open is delivered exactly "
                  "once to the peer application (the one listening for that "
                  "subprotocol)", "%s opened scid %d for %r; the peer's %r "
                  "listener got it" % (s.name, p.scid, p.name, q.name))
                return
            if q.made > 1:
                V("C10.made_twice", "each open is delivered exactly once",
                  "scid %d connectionMade %d times" % (p.scid, q.made))
                return
            for src, dst, d in ((p, q, "opener->acceptor"),
                                (q, p, "acceptor->opener")):
                n = len(dst.data)
                if dst.data != src.writes[:n]:
                    i = next((i for i in range(n) if i >= len(src.writes) or
                              dst.data[i] != src.writes[i]), n)
                    V("C10.not_prefix", "everything written to a subchannel is "
                      "delivered exactly once, in order, with write "
                      "boundaries preserved",
                      "scid %d %s: received[%d] len %d vs written %s; faults "
                      "%r" % (p.scid, d, i, len(dst.data[i]),
                              [len(x) for x in src.writes][:8],
                              faults.fired[:6]))
                    return
    sim.after_step = oracle

    def complete():
        if not wl.done() or len(started) < 2:
            return False
        for s in w.sides:
            for rec in s.connect_results:
                if rec[1] == "pending":
                    return False
        for s, p, qs in cc.subchannel_pairs(w):
            if not qs:
                return False
            q = qs[0]
            if q.data != p.writes or p.data != q.writes:
                return False
            if (p.closed_local or q.closed_local) and not (p.lost and q.lost):
                return False
        return True
    sim.run(8000, until=lambda: bool(viol) or complete())
    faults.heal()
    w.reactive_pause = False
    wl.resume_all()
    steps0, t0 = sim.steps, sim.now()
    r = sim.run(12000, until=lambda: bool(viol) or complete(), max_time=900)
    w.finish()
    if not viol and r != "until":
        pend = []
        for s, p, qs in cc.subchannel_pairs(w):
            q = qs[0] if qs else None
            pend.append((s.name, p.scid, len(p.writes),
                         len(q.data) if q else None,
                         len(q.writes) if q else None, len(p.data),
                         p.closed_local, p.lost, q.lost if q else None))
        V("C10.liveness", "once faults stop every issued open/write/close is "
          "delivered", "after heal: %s after %d events / %.0f s; scripts done"
          "=%s started=%s; (side,scid,wrote,peer_got,peer_wrote,got,closed,"
          "lost,peer_lost)=%r; states A=%s B=%s; faults %r" %
          (r, sim.steps - steps0, sim.now() - t0, wl.done(), sorted(started),
           pend[:6], _mstate(w.A), _mstate(w.B), faults.fired[:6]))
    nsub = sum(len(s.opened) for s in w.sides)
    maxw = max([len(p.writes) for s in w.sides for p in s.opened] + [0])
    nontrivial = faults.selected_cuts > 0 and (unacked_at_loss[0] > 0 or
                                               maxw >= 2)
    gens = max(s.m._next_dilation_generation for s in w.sides)
    sim.note("probe.reconnect_generations", max(0, gens - 2))
    return {"violation": viol[0] if viol else None, "nontrivial": nontrivial,
            "digest": sim.hexdigest(), "trace": sim.trace,
            "stats": {"steps": sim.steps, "sim_s": sim.now() - 1000.0,
                      "notes": sim.notes},
            "sample": {"seed": seed, "topology": w.topo, "ping": w.ping,
                       "scripts": {n: [[o[0]] + [x if not isinstance(x, bytes)
                                                 else "<%d B>" % len(x)
                                                 for x in o[1:]]
                                       for o in wl.scripts[n]][:14]
                                   for n in ("A", "B")},
                       "faults": faults.fired[:8], "subchannels": nsub}}


def _mstate(side):
    m = side.m
    return "%s(conn=%s,queue=%d)" % (
        side.name, "yes" if m._connection else "no",
        len(m._outbound._outbound_queue))


if __name__ == "__main__":
    import sys
    sys.exit(runner.main(sys.modules[__name__]))
