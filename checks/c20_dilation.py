"""C20, dilation half: hostile `connection-hints` messages through the real
Boss -> Dilator -> Manager -> Connector path."""
import json

from simlib import boot  # noqa: F401
from checks import common_a as ca
from checks import hintgen
from worlds.mailbox import MailboxWorld
from wormhole import errors as E

INTERNAL = ("TypeError", "AttributeError", "KeyError", "IndexError",
            "AssertionError", "NameError", "OverflowError", "NoTransition")


def _state(m):
    try:
        return m._state_machine._state if hasattr(m, "_state_machine") else \
            [k for k, v in vars(m).items() if "state" in k.lower()][:2]
    except Exception:
        return "?"


def run_late_relay(seed, tape, w, a, b, code):
    """Hints arriving spread out in time while no connection can be made yet:
    a direct hint towards a host that does not answer, then - a drawn time
    later - further lists (relay entries, direct entries, junk). Handling them
    never raises whatever the clock says."""
    sim = w.sim
    a.script = [("set_code", code),
                ("dilate", {"no_listen": tape.choose(2, "nla") == 0})]
    b.script = [("set_code", code),
                ("dilate", {"no_listen": tape.choose(2, "nlb") == 0})]
    # the peers cannot reach each other directly (NAT / firewall): every dial
    # towards a client address hangs; the mailbox server is another host
    for addr in ("127.0.0.1", "10.1.0.1"):
        sim.net.host_mode[addr] = "hang"
    sim.net.host_mode["10.9.9.8"] = "hang"
    sim.net.host_mode["10.9.9.7"] = "refuse"
    viol = []

    def V(key, clause, detail):
        if not viol:
            viol.append({"key": key, "clause": clause, "detail": detail})

    def mgr(c):
        return c.w._boss._D._manager
    sim.run(4000, until=lambda: mgr(a) is not None and mgr(b) is not None and
            a.has("versions") and b.has("versions") and
            getattr(mgr(a), "_connector", None) is not None and
            getattr(mgr(b), "_connector", None) is not None,
            max_time=60)
    if mgr(a) is None or getattr(mgr(a), "_connector", None) is None:
        from simlib.core import HarnessError
        raise HarnessError("late_relay: dilation did not start")
    direct = {"type": "direct-tcp-v1", "priority": 0.0,
              "hostname": "10.9.9.8", "port": 4242}
    relay = {"type": "relay-v1", "hints": [
        {"type": "direct-tcp-v1", "priority": 0.0, "hostname": "10.9.9.7",
         "port": 4001}]}
    plan = [[direct]]
    for _ in range(1 + tape.choose(3, "nlate")):
        plan.append(tape.pick(([relay], [relay, direct], [direct], [],
                               [{"type": "relay-v1", "hints": []}]), "lk"))
    injected = []
    for i, hints in enumerate(plan):
        if i:
            dt = tape.pick((0.0, 0.5, 1.999, 2.0, 2.5, 30.0), "gap")
            if dt:
                sim.reactor.callLater(dt, lambda: None)
                sim.run(3000, max_time=dt)
        src, dst = (b, a) if tape.choose(2, "dir") == 0 else (a, b)
        injected.append((round(sim.now() - 1000.0, 3), src.name, hints))
        sim.ev("inject_hints_timed", src.name, len(hints))
        mgr(src).send_dilation_generation(type="connection-hints",
                                          hints=hints)
        if sim.net.autoflush:
            sim.net.autoflush_all()
        sim.run(600, max_time=0.2)
    sim.run(600, max_time=1.0)
    # the converse: a well-formed entry becomes a connection attempt. The
    # relay named here refuses at once and the clock only moves when no
    # attempt is pending, so whenever a list arrives its receiver (still
    # looking for a connection) has no live or pending attempt towards the
    # relay: ignoring the entry would leave the peers without any path, so
    # each such list must lead to a dial (within RELAY_DELAY)
    sim.reactor.callLater(3.0, lambda: None)
    sim.run(3000, max_time=3.0)
    want = sum(1 for _, _, hints in injected if relay in hints)
    got = sum(1 for hp in sim.net.dial_log if tuple(hp) == ("10.9.9.7", 4001))
    if got < want and not (a.closed_results or b.closed_results or
                           a.saw_failure or b.saw_failure):
        V("C20.dilation.valid_hint_not_dialled", "hints with a string "
          "hostname and integer port of a supported type become connection "
          "attempts; handling hints never prevents the transfer",
          "%d hint lists named the relay 10.9.9.7:4001 while their receiver "
          "was looking for a connection and had no live or pending attempt "
          "towards it, but it was dialled only %d times; timed lists %s" %
          (want, got, json.dumps(injected)[:300]))
    for c in (a, b):
        if c.closed_results or c.saw_failure:
            errtype = [v for k, v in c.events if k.endswith("_err")]
            V("C20.dilation.wormhole_aborted.%s" %
              (errtype[0].__name__ if errtype else "closed"),
              "malformed hints never abort the wormhole",
              "%s closed/failed after timed hint lists %s" %
              (c.name, json.dumps(injected)[:400]))
    for etype, text, why in w.log.errors:
        if why and str(why).startswith("sim: exception"):
            V("C20.dilation.escaped.%s" % etype, "handling peer hints never "
              "raises", "%s: %s; timed lists %s" %
              (etype, text[:160], json.dumps(injected)[:300]))
        elif etype in INTERNAL:
            V("C20.dilation.internal_error_logged.%s" % etype, "handling peer "
              "hints never raises", "%s: %s; timed lists %s" %
              (etype, text[:200], json.dumps(injected)[:300]))
    for c in (a, b):
        c.do_close()
    sim.run(3000, until=lambda: a.is_closed and b.is_closed, max_time=200)
    w.finish()
    sim.note("probe.hints_spread_over_time")
    return ca.result(sim, w, viol[0] if viol else None, True, seed,
                     extra_sample={"half": "dilation", "late_relay": True,
                                   "timed_hints": injected[:4]},
                     extra_stats={"distinct_hint_lists":
                                  [hash(json.dumps(injected, sort_keys=True))]})


def run_dilation(seed, tape, opts):
    w = MailboxWorld(tape, dict(opts, spake="stub"))
    sim = w.sim
    sim.no_advance_while_connecting = True
    sim.allow_advance = False
    a = w.add_client("A", api="deferred", dilation=True)
    b = w.add_client("B", api="deferred", dilation=True)
    code = ca.fixed_code(tape)
    w.mode = "dilation-hints"
    late_relay = tape.choose(4, "late_relay") == 0
    if late_relay:
        return run_late_relay(seed, tape, w, a, b, code)
    # one side may not listen at all: then the only way to connect (and to
    # reconnect) is through the hints the other side produces
    nl = tape.pick((None, None, "A", "B"), "no_listen")
    a.script = [("set_code", code), ("dilate", {"no_listen": nl == "A"})]
    b.script = [("set_code", code), ("dilate", {"no_listen": nl == "B"})]
    bogus = ("10.9.9.7", 4242)
    sim.net.host_mode["10.9.9.7"] = "refuse"
    lists = [json.loads(json.dumps(hintgen.gen_hint_list(tape, [], bogus)))
             for _ in range(1 + tape.choose(3, "nlists"))]
    injected = []
    viol = []

    def V(key, clause, detail):
        if not viol:
            viol.append({"key": key, "clause": clause, "detail": detail})

    def mgr(c):
        return c.w._boss._D._manager

    def inject():
        hints = lists[len(injected)]
        injected.append(hints)
        sim.ev("inject_hints", len(hints))
        # the (Byzantine) peer holds the session key: its message is properly
        # encrypted, only the content is hostile
        mgr(b).send_dilation_generation(type="connection-hints", hints=hints)

    def extra():
        if len(injected) < len(lists) and mgr(b) is not None and \
                b.has("key") and not viol:
            return [("B:inject_hints", inject)]
        return []
    w.extra_app_events = extra

    def connected():
        ma, mb = mgr(a), mgr(b)
        return ma is not None and mb is not None and \
            ma._connection is not None and mb._connection is not None
    sim.run(6000, until=lambda: bool(viol) or (connected() and
                                               len(injected) == len(lists)
                                               and not any(
                                                   len(e.inflight) for l in
                                                   sim.net.links for e in
                                                   l.ends if l.mode ==
                                                   "message")),
            max_time=300)
    sim.run(400, max_time=10)
    # second part: the peer connection is lost (both told, or one side first)
    # and further hint lists arrive around the reconnect - stale ones while a
    # side is LONELY / FLUSHING / ABANDONING / CONNECTING again. Handling them
    # must not derail the reconnect either
    if not viol and connected() and tape.choose(2, "reconnect_part") == 0:
        old = (mgr(a)._connection, mgr(b)._connection)
        lists2 = [json.loads(json.dumps(hintgen.gen_hint_list(tape, [], bogus)))
                  if tape.choose(3, "l2kind") else []
                  for _ in range(1 + tape.choose(3, "nlists2"))]
        lists.extend(lists2)
        who = [tape.pick((a, b), "inj_who") for _ in lists2]
        tell = tape.pick((("c", "s"), ("c",), ("s",)), "tell")
        live = [l for l in sim.net.links if l.mode == "stream" and l.up and
                all(e.alive and e.made for e in l.ends)]
        for l in live:
            sim.net.cut(l, tell)
        sim.ev("peer_links_cut", len(live), "".join(tell))
        sim.note("fault.cut")
        revealed = [len(tell) == 2]

        def inject2():
            i = len(injected) - (len(lists) - len(lists2))
            hints = lists[len(injected)]
            injected.append(hints)
            sim.ev("inject_hints_late", who[i].name, len(hints))
            mgr(who[i]).send_dilation_generation(type="connection-hints",
                                                 hints=hints)

        def reveal():
            revealed[0] = True
            for l in live:
                sim.net.reveal(l)

        def extra2():
            evs = []
            if len(injected) < len(lists) and not viol:
                evs.append(("inject_hints_late", inject2))
            if not revealed[0]:
                evs.append(("reveal", reveal))
            return evs
        w.extra_app_events = extra2

        def reconnected():
            ma, mb = mgr(a), mgr(b)
            return ma._connection is not None and mb._connection is not None \
                and ma._connection is not old[0] and \
                mb._connection is not old[1] and revealed[0] and \
                len(injected) == len(lists)
        sim.run(8000, until=lambda: bool(viol) or reconnected() or
                bool(a.closed_results or b.closed_results or a.saw_failure or
                     b.saw_failure), max_time=300)
        sim.run(400, max_time=10)
        if not viol and not reconnected() and not (
                a.closed_results or b.closed_results or a.saw_failure or
                b.saw_failure):
            V("C20.dilation.no_reconnect_after_hints", "handling hints never "
              "aborts the wormhole or the transfer: after a connection loss "
              "the sides reconnect whatever hint lists arrive meanwhile",
              "cut told %r; late lists from %r; states A=%s B=%s" %
              (tell, [c.name for c in who], _state(mgr(a)), _state(mgr(b))))
        sim.note("probe.hints_around_reconnect")
    ports = set(p for p in range(40000, sim.net.next_port + 1))
    allowed = set()
    for hl in injected:
        allowed |= hintgen.expected_targets(hl)
    for (host, port) in sim.net.dial_log:
        if host == "10.0.0.1":
            continue
        if (host, port) in allowed or (host in ("10.1.0.1", "127.0.0.1") and
                                       port in ports):
            continue
        V("C20.dilation.dialled_invalid.%s" %
          ("bool_port" if isinstance(port, bool) else "other"),
          "only hints with a string hostname and integer port of a supported "
          "type become connection attempts",
          "dialled %r:%r; injected %s" % (host, port,
                                          json.dumps(injected)[:300]))
    for c in (a, b):
        if c.closed_results or c.saw_failure:
            res = c.closed_results[0] if c.closed_results else \
                [k for k, v in c.events if k.endswith("_err")][:1]
            errtype = [v for k, v in c.events if k.endswith("_err")]
            V("C20.dilation.wormhole_aborted.%s" %
              (errtype[0].__name__ if errtype else "closed"),
              "malformed hints never abort the wormhole",
              "%s closed/failed with %r after hints %s" %
              (c.name, res, json.dumps(injected)[:300]))
    for etype, text, why in w.log.errors:
        # an exception that ESCAPED into the reactor (not one that a Deferred
        # errback caught and merely logged, e.g. HostnameEndpoint's
        # "invalid hostname" for a syntactically bad name)
        if why and str(why).startswith("sim: exception"):
            V("C20.dilation.escaped.%s" % etype, "handling peer hints never "
              "raises", "%s: %s; hints %s" % (etype, text[:160],
                                              json.dumps(injected)[:200]))
        elif etype in INTERNAL:
            # a programming error inside the hint handling (as opposed to a
            # connection failure, or Twisted's own "invalid hostname"
            # ValueError for a syntactically bad name): reported through
            # log.err it is an error all the same
            V("C20.dilation.internal_error_logged.%s" % etype, "handling peer "
              "hints never raises", "%s: %s; hints %s" %
              (etype, text[:200], json.dumps(injected)[:300]))
        elif etype == "ValueError":
            sim.note("probe.logged_by_errback." + etype)
    if not viol and not connected():
        V("C20.dilation.no_connection", "malformed hints never abort the "
          "transfer: the valid hints still lead to a connection",
          "managers connected: A=%s B=%s" %
          (mgr(a) is not None and mgr(a)._connection is not None,
           mgr(b) is not None and mgr(b)._connection is not None))
    for c in (a, b):
        c.do_close()
    sim.run(3000, until=lambda: a.is_closed and b.is_closed, max_time=200)
    w.finish()
    return ca.result(sim, w, viol[0] if viol else None, True, seed,
                     extra_sample={"half": "dilation", "hints": injected[:2],
                                   "dialled": sim.net.dial_log[:8]},
                     extra_stats={"distinct_hint_lists":
                                  [hash(json.dumps(injected,
                                                   sort_keys=True))]})
